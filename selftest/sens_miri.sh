#!/bin/bash
# Sensitivity of the Miri layer of C13: apply a patch to /repo, run the C13 check with the Miri
# layer forced on (few seeds), expect exit 1 + VIOLATION; always restore /repo.
cd /verif
if [ -n "$(git -C /repo status --porcelain --untracked-files=no)" ]; then echo "refusing: /repo has local changes"; exit 2; fi
trap 'git -C /repo checkout -- . ' EXIT
for p in "$@"; do
  name=$(basename "$p" .diff)
  git -C /repo apply "$(realpath "$p")" || { echo "$name: PATCH-DOES-NOT-APPLY"; continue; }
  out=$(VERIF_REPLAYS=/verif/sim/target/sens-replays VERIF_MIRI=1 VERIF_MIRI_SEEDS="${SEEDS:-8}" ./check C13 quick --cases "${CASES:-2000}" 2>&1); rc=$?
  git -C /repo checkout -- .
  printf "%-40s rc=%s  %s\n" "$name" "$rc" "$(echo "$out" | grep -E '^VIOLATION|^OK' | tr '\n' ' ')"
done
