#!/bin/bash
# Determinism self-test: for every engine, many VERIF_SEED values, each run three times in separate
# processes at worker counts 1, 5 and 16; the per-case digest files must be byte-identical.
# usage: determinism.sh [seeds=40] [cases=300]   (exit 0 = deterministic, 2 = divergence found)
SEEDS="${1:-40}"; CASES="${2:-300}"
cd /verif && ./check build >/dev/null || exit 2
SIM=/verif/sim/target/release/sim
if [ -n "${DET_PRIVATE_COPY:-}" ]; then cp $SIM /verif/sim/target/sim-det-copy && SIM=/verif/sim/target/sim-det-copy; fi
D=$(mktemp -d /verif/sim/target/det.XXXX)
bad=0; total=0
for eng in srcsim lifesim recsim histsim thrsim; do
  c=$CASES; [ "$eng" = lifesim ] && c=$((CASES/2)); [ "$eng" = thrsim ] && c=$((CASES/3))
  for s in $(seq 1 "$SEEDS"); do
    for w in 1 5 16; do
      $SIM child $eng --tier quick --seed $s --first 0 --cases $c --workers $w --out $D/o.json --digests $D/$eng-$s-$w.txt >/dev/null 2>&1 || { echo "child failed: $eng seed=$s workers=$w"; bad=1; }
    done
    total=$((total+1))
    if ! cmp -s $D/$eng-$s-1.txt $D/$eng-$s-5.txt || ! cmp -s $D/$eng-$s-1.txt $D/$eng-$s-16.txt; then
      echo "DIVERGENCE engine=$eng seed=$s"; diff $D/$eng-$s-1.txt $D/$eng-$s-16.txt | head -5; bad=1
    fi
    rm -f $D/$eng-$s-*.txt
  done
  echo "engine=$eng seeds=$SEEDS cases_per_seed=$c runs_per_seed=3 (workers 1,5,16): $( [ $bad = 0 ] && echo identical || echo DIVERGED )"
done
rm -rf $D
[ $bad = 0 ] && { echo "DETERMINISM OK: $total (engine, seed) pairs x 3 processes"; exit 0; } || exit 2
