#!/bin/bash
# Re-confirm stored seeded defects from /verif/seeded/<id>/ in a fresh scratch worktree:
#   seeded_reconfirm.sh <id>...
# (worktree under /tmp, removed afterwards; uses demo_cmd from meta.json or agent_meta.json)
for id in "$@"; do
  d=/verif/seeded/$id
  W=$(mktemp -d /tmp/reconf.XXXXXX)
  git -C /repo worktree add -f "$W/wt" HEAD -q || exit 2
  mkdir -p "$W/wt/_mutation" "$W/wt/tests"
  cp "$d/patch.diff" "$W/wt/_mutation/patch.diff"; cp "$d/demo.rs" "$W/wt/tests/demo.rs"
  m="$d/meta.json"; [ -f "$m" ] || m="$d/agent_meta.json"
  cmd=$(python3 -c "import json,sys,re; c=json.load(open('$m'))['demo_cmd']; print(re.sub(r'^cd \S+ && ','',c))")
  echo "=== $id: $cmd"
  /verif/selftest/seeded_confirm.sh "$W/wt" "$cmd" 2>&1 | grep -v conda
  git -C /repo worktree remove --force "$W/wt"; rm -rf "$W"
done
