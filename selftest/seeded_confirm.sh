#!/bin/bash
# Confirm a sub-agent's seeded defect independently, in ITS scratch worktree:
#   seeded_confirm.sh <worktree> "<demo cmd>"
# checks: patch.diff applies to the pinned commit; with the patch the pinned suite passes and the
# library builds with all features; the demo fails with the patch and passes without it.
wt="$1"; demo="$2"
cd "$wt" || exit 2
cp _mutation/patch.diff /tmp/confirm.$$.diff
git checkout -q -- src; 
echo "--- without patch: demo"; (eval "$demo") >/tmp/confirm.$$.log 2>&1; rc0=$?; echo "demo rc=$rc0 (expected 0)"; grep -E "^test result|overflow|panicked" /tmp/confirm.$$.log | head -5
git apply /tmp/confirm.$$.diff || { echo "PATCH DOES NOT APPLY"; exit 1; }
echo "--- with patch: pinned suite"; mv tests/demo.rs /tmp/confirm.$$.demo.rs 2>/dev/null
cargo test --workspace --no-fail-fast --offline >/tmp/confirm.$$.log 2>&1; rct=$?; grep -E "^test result" /tmp/confirm.$$.log; echo "suite rc=$rct (expected 0)"
cargo build --offline --features "memoization extension pratt either bytes regex unstable" >/tmp/confirm.$$.log 2>&1; echo "all-features build rc=$? (expected 0)"
mv /tmp/confirm.$$.demo.rs tests/demo.rs 2>/dev/null
echo "--- with patch: demo"; (eval "$demo") >/tmp/confirm.$$.log 2>&1; rc1=$?; echo "demo rc=$rc1 (expected non-zero)"; grep -E "^test result|overflow|panicked|FAILED" /tmp/confirm.$$.log | head -6
rm -f /tmp/confirm.$$.*
[ $rc0 = 0 ] && [ $rct = 0 ] && [ $rc1 != 0 ] && echo "CONFIRMED" || echo "NOT CONFIRMED"
