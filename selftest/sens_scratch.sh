#!/bin/bash
# Sensitivity self-test on a SCRATCH copy (never touches /repo or /verif/sim/target):
#   sens_scratch.sh <C10|C12|C13> <patch.diff>...      env CASES (default 6000), KEEP=1 keeps the scratch
# A scratch worktree of /repo and a copy of the sim crate (path dependency redirected to the
# worktree, own target dir) are created under /tmp and removed afterwards. For each patch: apply,
# rebuild, run the property's quick check with a reduced case count; expected: rc=1 + VIOLATION.
prop="$1"; shift
CASES="${CASES:-6000}"
S=$(mktemp -d /tmp/sens.XXXXXX)
cleanup() { git -C /repo worktree remove --force "$S/repo" >/dev/null 2>&1; rm -rf "$S"; }
[ -n "${KEEP:-}" ] || trap cleanup EXIT
git -C /repo worktree add -f "$S/repo" HEAD -q || exit 2
mkdir -p "$S/sim" && SIM_DIR="${SIM_DIR:-/verif/sim}"; cp -r "$SIM_DIR/src" "$SIM_DIR/Cargo.toml" "$SIM_DIR/Cargo.lock" "$S/sim/" && mkdir -p "$S/sim/.cargo"
sed -i "s|path = \"/repo\"|path = \"$S/repo\"|" "$S/sim/Cargo.toml"
printf '[net]\noffline = true\n[build]\ntarget-dir = "%s/target"\n' "$S" > "$S/sim/.cargo/config.toml"
case "$prop" in C10) what=srcsim;; C12) what=c12;; C13) what=c13;; *) echo "unknown property"; exit 2;; esac
for p in "$@"; do
  name=$(basename "$p" .diff)
  git -C "$S/repo" checkout -q -- . ; git -C "$S/repo" clean -fdq
  git -C "$S/repo" apply "$(realpath "$p")" || { echo "$name: PATCH-DOES-NOT-APPLY"; continue; }
  t0=$(date +%s)
  ( cd "$S/sim" && cargo build --release --offline -q 2>"$S/build.log" ) || { echo "$name: BUILD-FAILED"; tail -5 "$S/build.log"; continue; }
  out=$(cd "$S" && VERIF_MIRI=0 VERIF_REPLAYS="$S/replays" VERIF_SCRATCH="$S/scratch" "$S/target/release/sim" run $what --tier quick --seed "${VERIF_SEED:-1}" $( [ "$CASES" = tier ] || echo --cases "$CASES" ) 2>&1); rc=$?
  t1=$(date +%s)
  echo "$out" > "/tmp/sens_last_${prop}_$(basename "$(dirname "$(realpath "$p")")")_${name}.out"
  v=$(echo "$out" | grep -c '^VIOLATION')
  printf "%-44s rc=%s violations=%s %4ss  %s\n" "$name" "$rc" "$v" "$((t1-t0))" "$(echo "$out" | grep '^violation:' | head -1 | cut -c1-220)"
done
