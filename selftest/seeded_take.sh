#!/bin/bash
# Take a sub-agent's deliverables from its scratch worktree into /verif/seeded/<id>/, confirm them
# independently (seeded_confirm.sh), then remove the worktree with its build output.
#   seeded_take.sh <id> <worktree>
id="$1"; wt="$2"
d=/verif/seeded/$id; mkdir -p "$d"
cp "$wt/_mutation/patch.diff" "$d/patch.diff"; cp "$wt/tests/demo.rs" "$d/demo.rs"; cp "$wt/_mutation/agent_meta.json" "$d/agent_meta.json"
cmd=$(python3 -c "import json,re; c=json.load(open('$d/agent_meta.json'))['demo_cmd']; print(re.sub(r'^cd \S+ && ','',c))")
echo "=== $id: $cmd"
/verif/selftest/seeded_confirm.sh "$wt" "$cmd" 2>&1 | grep -v conda
git -C /repo worktree remove --force "$wt"; rm -rf "$wt"
