#!/bin/bash
# Sensitivity self-test: apply each property-breaking patch to /repo, run the property's quick check
# with a reduced case count, expect exit 1 + VIOLATION; always restore /repo.
# usage: sens.sh <property> <patch.diff>... ; env CASES (default 6000)
prop="$1"; shift
CASES="${CASES:-6000}"
cd /verif
if [ -n "$(git -C /repo status --porcelain --untracked-files=no)" ]; then echo "refusing: /repo has local changes"; exit 2; fi
trap 'git -C /repo checkout -- . ' EXIT
for p in "$@"; do
  name=$(basename "$p" .diff)
  git -C /repo apply "$(realpath "$p")" || { echo "$name: PATCH-DOES-NOT-APPLY"; continue; }
  t0=$(date +%s.%N)
  out=$(VERIF_REPLAYS=/verif/sim/target/sens-replays ./check "$prop" quick --cases "$CASES" 2>&1); rc=$?
  t1=$(date +%s.%N)
  git -C /repo checkout -- .
  v=$(echo "$out" | grep -c '^VIOLATION')
  printf "%-40s rc=%s violations=%s  %.0fs  %s\n" "$name" "$rc" "$v" "$(echo "$t1 - $t0" | bc)" "$(echo "$out" | grep '^violation:' | head -1 | cut -c1-200)"
done
