#!/bin/bash
# False-alarm sweep on the unchanged tree: every engine's quick tier under many VERIF_SEED values
# must exit 0. usage: false_alarm_sweep.sh [first_seed=2] [last_seed=40] [tier=quick]
A="${1:-2}"; B="${2:-40}"; TIER="${3:-quick}"
cd /verif && ./check build >/dev/null || exit 2
cp /verif/sim/target/release/sim /verif/sim/target/sim-sweep-copy; SIM=/verif/sim/target/sim-sweep-copy
bad=0
for s in $(seq "$A" "$B"); do
  for e in srcsim c12 c13; do
    out=$(VERIF_MIRI="${VERIF_MIRI:-0}" VERIF_REPLAYS=/verif/sim/target/sweep-replays VERIF_SCRATCH=/verif/sim/target/sweep-scratch $SIM run $e --tier $TIER --seed $s 2>&1); rc=$?
    if [ $rc != 0 ]; then echo "seed=$s engine=$e rc=$rc"; echo "$out" | tail -4; bad=1; fi
  done
  echo "seed $s done"
done
[ $bad = 0 ] && echo "SWEEP OK seeds $A..$B tier=$TIER" || { echo "SWEEP FOUND ALARMS"; exit 1; }
