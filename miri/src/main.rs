//! Miri layer of C13: a `Sync` parser shared between real `std::thread`s gives each thread the
//! same results as sequential use. Run under Miri's seeded pre-emptive scheduler with the data-race
//! and aliasing detectors on (`-Zmiri-many-seeds=a..b -Zmiri-preemption-rate=0.1`); the program
//! itself is deterministic, the seed decides the interleaving.

use chumsky::cache::{Cache, Cached};
use chumsky::pratt::{infix, left, postfix, prefix, right};
use chumsky::prelude::*;
use chumsky::text;
use std::sync::{Arc, LazyLock};

type Ex<'a> = extra::Err<Rich<'a, char>>;
type Out = Vec<i64>;
type Shared<'a> = Arc<dyn Parser<'a, &'a str, Out, Ex<'a>> + Send + Sync + 'a>;

fn num(s: &str) -> i64 {
    s.bytes().fold(0i64, |a, b| a.wrapping_mul(10).wrapping_add((b - b'0') as i64))
}

fn memo<'a>() -> impl Parser<'a, &'a str, Out, Ex<'a>> + Clone + Send + Sync {
    let a = just('a').repeated().at_least(1).count().map(|n| n as i64).memoized();
    let b = one_of("bc").repeated().at_least(1).count().map(|n| 100 + n as i64).memoized();
    let ab = a.clone().then(b.clone()).map(|(x, y)| vec![x, y]).memoized();
    choice((
        ab.clone().then_ignore(just('x')).map(|mut v| {
            v.push(0);
            v
        }),
        ab.then_ignore(just('y')).map(|mut v| {
            v.push(1);
            v
        }),
        a.clone().then_ignore(just('x')).map(|v| vec![v, 2]),
        a.then_ignore(just('y')).map(|v| vec![v, 3]),
        b.then_ignore(just('z')).map(|v| vec![v, 4]),
    ))
}

fn pratt<'a>() -> impl Parser<'a, &'a str, Out, Ex<'a>> + Clone + Send + Sync {
    let atom = text::int(10).map(|s: &str| num(s)).padded();
    let op = |c: char| just(c).padded();
    atom.pratt((
        infix(left(1), op('+'), |l: i64, _, r: i64, _| l + r),
        infix(left(2), op('*'), |l: i64, _, r: i64, _| l * r),
        infix(right(3), op('^'), |l: i64, _, r: i64, _| l.wrapping_pow(r as u32 % 5)),
        prefix(4, op('-'), |_, r: i64, _| -r),
        postfix(5, op('!'), |l: i64, _, _| l + 1000),
    ))
    .map(|v| vec![v])
}

/// A second Pratt table of another shape: no prefix operators, other powers, a subtraction.
fn pratt_b<'a>() -> impl Parser<'a, &'a str, Out, Ex<'a>> + Clone + Send + Sync {
    let atom = text::int(10).map(|s: &str| num(s));
    atom.pratt((
        infix(left(2), just('+'), |l: i64, _, r: i64, _| l + r),
        infix(left(2), just('-'), |l: i64, _, r: i64, _| l - r),
        infix(left(4), just('*'), |l: i64, _, r: i64, _| l * r),
        infix(right(6), just('^'), |l: i64, _, r: i64, _| l.wrapping_pow(r as u32 % 5)),
        postfix(7, just('!'), |l: i64, _, _| l + 1000),
    ))
    .map(|v| vec![v])
}

fn valid<'a>() -> impl Parser<'a, &'a str, Out, Ex<'a>> + Clone + Send + Sync {
    let byte = text::int(10).validate(|s: &str, e, em| {
        let n = num(s);
        if n > 255 {
            em.emit(Rich::custom(e.span(), "too big"));
        }
        n
    });
    let item = byte.recover_with(skip_then_retry_until(any().ignored(), one_of(" ;").ignored()));
    item.separated_by(just(' ')).at_least(1).collect::<Vec<i64>>().then_ignore(just(';'))
}

/// A bit of everything that has no user callback inside: sequences of literals, one_of / none_of,
/// keywords and identifiers, separated lists, look-ahead, labels, choice with error merging, recovery.
fn mix<'a>() -> impl Parser<'a, &'a str, Out, Ex<'a>> + Clone + Send + Sync {
    let kw = text::ascii::keyword("let").to(1i64).or(text::ascii::keyword("fn").to(2));
    let name = text::ascii::ident().and_is(text::ascii::keyword("let").not()).to(3i64).labelled("name");
    let lit = just("ab").or(just("ac")).or(just("abc")).to(4i64);
    let num = one_of("0123456789").repeated().at_least(1).at_most(4).count().map(|n| 10 + n as i64);
    let item = choice((kw, lit, name, num)).padded();
    let list = item
        .clone()
        .separated_by(just(',').padded())
        .allow_trailing()
        .collect::<Vec<i64>>()
        .delimited_by(just('('), just(')'))
        .recover_with(skip_until(none_of(")").ignored(), just(')').ignored(), Vec::new));
    list.or(item.repeated().at_least(1).collect::<Vec<i64>>())
}

/// Unicode identifiers and keywords next to non-identifier symbols (character-class lookups).
fn uni<'a>() -> impl Parser<'a, &'a str, Out, Ex<'a>> + Clone + Send + Sync {
    let kw = text::unicode::keyword("été").to(1i64);
    let id = text::unicode::ident().map(|s: &str| 100 + s.chars().count() as i64);
    // (any symbol: every non-identifier character is looked up by `ident` first)
    let sym = any().filter(|c: &char| !c.is_alphanumeric() && !c.is_whitespace() && *c != '_').to(2i64);
    choice((kw, id, sym)).padded().repeated().at_least(1).collect::<Vec<i64>>()
}

/// Regex tokens, some with look-behind-sensitive assertions (`\\b`, `(?m)^`): regex-automata keeps a
/// cache pool behind every compiled regex, shared by all threads that use the parser.
fn rx<'a>() -> impl Parser<'a, &'a str, Out, Ex<'a>> + Clone + Send + Sync {
    let word = chumsky::regex::regex::<&'a str, Ex<'a>>("(?-u:\\b)[a-z]+").map(|s: &str| 100 + s.len() as i64);
    let number = chumsky::regex::regex::<&'a str, Ex<'a>>("[0-9]+").map(|s: &str| num(s));
    let hash = chumsky::regex::regex::<&'a str, Ex<'a>>("(?m)^#").to(-1i64);
    let punct = one_of("=;. \n").to(-2i64);
    choice((hash, word, number, punct)).repeated().at_least(1).collect::<Vec<i64>>()
}

fn make<'a>(z: usize) -> Shared<'a> {
    match z {
        0 => Arc::new(memo()),
        1 => Arc::new(pratt()),
        2 => Arc::new(valid()),
        3 => Arc::new(mix()),
        4 => Arc::new(uni()),
        _ => Arc::new(rx()),
    }
}

struct C<const Z: usize>;
impl<const Z: usize> Cached for C<Z> {
    type Parser<'a> = Shared<'a>;
    fn make_parser<'a>(self) -> Shared<'a> {
        make(Z)
    }
}
static C0: LazyLock<Cache<C<0>>> = LazyLock::new(|| Cache::new(C::<0>));
static C1: LazyLock<Cache<C<1>>> = LazyLock::new(|| Cache::new(C::<1>));
static C2: LazyLock<Cache<C<2>>> = LazyLock::new(|| Cache::new(C::<2>));
static C3: LazyLock<Cache<C<3>>> = LazyLock::new(|| Cache::new(C::<3>));
static C4: LazyLock<Cache<C<4>>> = LazyLock::new(|| Cache::new(C::<4>));
static C5: LazyLock<Cache<C<5>>> = LazyLock::new(|| Cache::new(C::<5>));

fn cached<'a>(z: usize) -> &'a Shared<'a> {
    match z {
        0 => C0.get(),
        1 => C1.get(),
        2 => C2.get(),
        3 => C3.get(),
        4 => C4.get(),
        _ => C5.get(),
    }
}

const NZ: usize = 6;
const POOLS: [&[&str]; NZ] = [
    &["aabx", "aay", "bcz", "aabz", "ay"],
    &["1+2*3", "-1^2!", "2 * (3", "4!+5"],
    &["1 2 3;", "1 300 2;", "1 x 2;", "1 2"],
    &["(let, ab, x1)", "fn abc 12", "(ac, 12345, )", "(let ; ab)", "lettuce ab"],
    // (the last three: every letter and every symbol of the Latin-1 block, interleaved — dense in distinct
    // non-ASCII characters of both classes, so that any small table keyed by code point sees collisions)
    &["néé caféé", "a→ p≠ q", "été étéé", "αβγ→δ", "x+y", "à¡á¢â£ã¤ä¥å¦æ§ç¨è©é«ê¬ë®ì¯í°î±ï²ð³ñ´ò¶ó¸ô¹õ»ö¼ø½ù¾ú¿û×ü÷ýþÿ", "÷ÿ×¿ý¾½û¼»ù¹¸ö¶´ô³²ò±°ð¯®î¬«ì©¨ê§¦è¥¤æ£¢ä¡âà", "àáâ¡ ãäå¤ æçè§ éêë« ìíî¯ ïðñ² òóô¶ õöø» ùúû¾ üýþ÷ ÿ£"],
    &["v0=10px;", "#a 1\n#b", "ab 12cd", "a#b.c"],
];

fn show<'a>(p: &Shared<'a>, s: &'a str, check: bool) -> String {
    if check {
        format!("{:?}", (&p.as_ref()).check(s).into_output_errors())
    } else {
        format!("{:?}", p.parse(s).into_output_errors())
    }
}

fn main() {
    let mode = std::env::args().nth(1).unwrap_or_else(|| "run".into());
    let threads = if mode == "selfcheck" { 1 } else { 3 };
    let mut ops = 0u64;
    // sequential references from brand-new parsers
    let mut refs: Vec<Vec<(String, String)>> = Vec::new();
    for z in 0..NZ {
        // (one fresh parser per grammar: building a regex under Miri is expensive; sequential reuse of
        // one value is C13 too and is what histsim covers)
        let fresh = make(z);
        refs.push(POOLS[z].iter().map(|s| (show(&fresh, s, false), show(&fresh, s, true))).collect());
    }
    let refs = Arc::new(refs);
    for z in 0..NZ {
        let shared: Shared<'static> = make(z);
        let hs: Vec<_> = (0..threads)
            .map(|t| {
                let shared = shared.clone();
                let refs = refs.clone();
                std::thread::spawn(move || {
                    let mut n = 0u64;
                    let pool = POOLS[z];
                    for k in 0..pool.len() {
                        // each thread walks the pool in a different order; alternate parse / check,
                        // the Arc'd parser / the static Cache (input copied to a short-lived String)
                        let i = (k * (t + 1) + t) % pool.len();
                        let check = (k + t) % 2 == 1;
                        let got = if (k + t) % 3 == 0 {
                            let short = String::from(pool[i]);
                            show(cached(z), &short, check)
                        } else {
                            show(&shared, pool[i], check)
                        };
                        let want = if check { &refs[z][i].1 } else { &refs[z][i].0 };
                        assert_eq!(&got, want, "C13: thread {} zoo {} input {:?} check={} differs from sequential use", t, z, pool[i], check);
                        n += 1;
                    }
                    n
                })
            })
            .collect();
        for h in hs {
            ops += h.join().expect("client thread panicked");
        }
    }
    // Two DIFFERENT shared Pratt parsers used alternately by the same threads, with many other tables
    // constructed in between (whatever identifies a table — an id, an address, a hash — then has the
    // chance to collide modulo small powers of two).
    {
        let pool_a = POOLS[1];
        let pool_b: &[&str] = &["1+2*3!", "2^3^2-1", "7!!", "1-2-3"];
        let (fresh_a, fresh_b): (Shared<'static>, Shared<'static>) = (make(1), Arc::new(pratt_b()));
        let want_a: Vec<String> = pool_a.iter().map(|s| show(&fresh_a, s, false)).collect();
        let want_b: Vec<String> = pool_b.iter().map(|s| show(&fresh_b, s, false)).collect();
        // the shared tables: A, then B tables that are the 16th, 32nd, 64th and 128th table after A
        let a: Shared<'static> = make(1);
        let mut others: Vec<Shared<'static>> = Vec::new();
        for gap in [15usize, 15, 31, 63] {
            for _ in 0..gap {
                drop(pratt());
            }
            others.push(Arc::new(pratt_b()));
        }
        let (want_a, want_b, others) = (Arc::new(want_a), Arc::new(want_b), Arc::new(others));
        let hs: Vec<_> = (0..threads)
            .map(|t| {
                let (a, others, want_a, want_b) = (a.clone(), others.clone(), want_a.clone(), want_b.clone());
                std::thread::spawn(move || {
                    let mut n = 0u64;
                    for k in 0..6usize {
                        let i = (k + t) % pool_a.len();
                        assert_eq!(&show(&a, pool_a[i], false), &want_a[i], "C13: thread {} pratt A input {:?} differs from sequential use", t, pool_a[i]);
                        let b = &others[(k + t) % others.len()];
                        let j = (k * 3 + t) % pool_b.len();
                        assert_eq!(&show(b, pool_b[j], false), &want_b[j], "C13: thread {} pratt B input {:?} differs from sequential use", t, pool_b[j]);
                        n += 2;
                    }
                    n
                })
            })
            .collect();
        for h in hs {
            ops += h.join().expect("client thread panicked");
        }
    }
    println!("MIRI-OK ops={}", ops);
}
