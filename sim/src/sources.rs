//! The simulated environment behind the source-backed inputs: a `Read + Seek` device, a pull
//! iterator and a clonable iterator. Every call is a seam event; every decision comes from the
//! case PRNG (generation) or from the recorded trace (replay).

use crate::hook;
use crate::prng::Rng;
use serde::{Deserialize, Serialize};
use std::cell::RefCell;
use std::io::{self, Read, Seek, SeekFrom};
use std::rc::Rc;

#[derive(Clone, Copy, Debug, PartialEq, Eq, Serialize, Deserialize)]
pub enum Chunk {
    One,
    Fixed(usize),
    UpTo(usize),
    Full,
}

#[derive(Clone, Copy, Debug, PartialEq, Eq, Serialize, Deserialize)]
pub enum Eintr {
    Never,
    Rate(u64, u64),
    Burst(u64),
}

#[derive(Clone, Debug, PartialEq, Eq, Serialize, Deserialize)]
pub struct ReaderPolicy {
    pub chunk: Chunk,
    pub eintr: Eintr,
    /// A read never crosses one of these offsets (short-read boundary placed inside in-flight state).
    pub cuts: Vec<usize>,
    /// Dead device: every read at offset >= k fails, for ever. (Characterisation runs only.)
    pub sticky_at: Option<usize>,
    /// One-shot error at the m-th read call. (Characterisation runs only.)
    pub transient_at_read: Option<u64>,
    /// The reader was already advanced when it was wrapped: this many foreign bytes (a header that
    /// was read before) precede the logical start of the input in the underlying device.
    #[serde(default)]
    pub prefix: usize,
}

impl ReaderPolicy {
    pub fn full() -> Self {
        ReaderPolicy { chunk: Chunk::Full, eintr: Eintr::Never, cuts: vec![], sticky_at: None, transient_at_read: None, prefix: 0 }
    }
    pub fn legal(rng: &mut Rng, len: usize, hot: &[usize]) -> Self {
        let chunk = match rng.below(10) {
            0 | 1 => Chunk::One,
            2 | 3 => Chunk::Fixed(rng.range(2, 7) as usize),
            4 | 5 | 6 => Chunk::UpTo(rng.range(2, 9) as usize),
            7 => Chunk::UpTo(rng.range(16, 600) as usize),
            _ => Chunk::Full,
        };
        let eintr = match rng.below(8) {
            0 | 1 | 2 | 3 => Eintr::Never,
            4 | 5 => Eintr::Rate(1, 16),
            6 => Eintr::Rate(1, 4),
            _ => Eintr::Burst(rng.range(2, 8)),
        };
        let mut cuts = Vec::new();
        if len > 0 {
            for _ in 0..rng.below(4) {
                cuts.push(rng.usize(len + 1));
            }
            // biased: right at / just after the furthest positions the reference parse reported
            for &h in hot {
                if rng.chance(2, 3) {
                    cuts.push((h + rng.usize(2)).min(len));
                }
            }
        }
        cuts.sort();
        cuts.dedup();
        let prefix = if rng.chance(1, 2) { 0 } else { rng.range(1, 24) as usize };
        ReaderPolicy { chunk, eintr, cuts, sticky_at: None, transient_at_read: None, prefix }
    }
    pub fn is_legal(&self) -> bool {
        self.sticky_at.is_none() && self.transient_at_read.is_none()
    }
}

#[derive(Clone, Copy, Debug, PartialEq, Eq, Serialize, Deserialize)]
pub enum RAct {
    Deliver(usize),
    Eintr,
    Fail,
    Eof,
}

#[derive(Clone, Debug, Default)]
pub struct ReaderLog {
    pub trace: Vec<RAct>,
    pub reads: u64,
    pub short_reads: u64,
    pub one_byte_reads: u64,
    pub eintr: u64,
    pub fails: u64,
    pub eof_hits: u64,
    pub seeks: u64,
    pub backward_seeks: u64,
    pub max_backward: u64,
    pub bytes_delivered: u64,
    pub max_pos: u64,
    /// monitors (O3)
    pub negative_seek: bool,
    pub read_ok_after_sticky: bool,
    pub max_req: usize,
    pub started_at: u64,
}

enum Mode {
    Gen { rng: Rng, policy: ReaderPolicy, burst_left: u64 },
    Replay { trace: Vec<RAct>, idx: usize },
}

pub struct SimReader {
    data: Rc<Vec<u8>>,
    pos: u64,
    /// physical offset of the logical start of the input
    base: u64,
    mode: Mode,
    sticky_at: Option<usize>,
    log: Rc<RefCell<ReaderLog>>,
}

impl SimReader {
    /// `prefix` foreign bytes (0xEE — never a token of the alphabet) precede the input in the device;
    /// the reader is handed to chumsky positioned at the logical start. All offsets in the policy are
    /// logical and shifted here.
    fn physical(data: &Rc<Vec<u8>>, prefix: usize) -> Rc<Vec<u8>> {
        if prefix == 0 {
            data.clone()
        } else {
            let mut v = vec![0xEEu8; prefix];
            v.extend_from_slice(data);
            Rc::new(v)
        }
    }
    pub fn new(data: Rc<Vec<u8>>, mut policy: ReaderPolicy, rng: Rng) -> (SimReader, Rc<RefCell<ReaderLog>>) {
        let log = Rc::new(RefCell::new(ReaderLog::default()));
        let base = policy.prefix;
        policy.sticky_at = policy.sticky_at.map(|k| k + base);
        for c in policy.cuts.iter_mut() {
            *c += base;
        }
        let sticky_at = policy.sticky_at;
        (SimReader { data: Self::physical(&data, base), pos: base as u64, base: base as u64, mode: Mode::Gen { rng, policy, burst_left: 0 }, sticky_at, log: log.clone() }, log)
    }
    pub fn replay(data: Rc<Vec<u8>>, trace: Vec<RAct>, sticky_at: Option<usize>, prefix: usize) -> (SimReader, Rc<RefCell<ReaderLog>>) {
        let log = Rc::new(RefCell::new(ReaderLog::default()));
        (SimReader { data: Self::physical(&data, prefix), pos: prefix as u64, base: prefix as u64, mode: Mode::Replay { trace, idx: 0 }, sticky_at: sticky_at.map(|k| k + prefix), log: log.clone() }, log)
    }

    fn decide(&mut self, want: usize) -> RAct {
        let len = self.data.len() as u64;
        let remaining = len.saturating_sub(self.pos) as usize;
        let reads = self.log.borrow().reads;
        match &mut self.mode {
            Mode::Replay { trace, idx } => {
                let a = trace.get(*idx).copied();
                *idx += 1;
                match a {
                    // a trace recorded for a different (pre-minimisation) parse may not fit: clamp.
                    Some(RAct::Deliver(n)) => {
                        if remaining == 0 {
                            RAct::Eof
                        } else {
                            RAct::Deliver(n.clamp(1, remaining.min(want)))
                        }
                    }
                    Some(RAct::Eof) if remaining > 0 => RAct::Deliver(remaining.min(want)),
                    Some(a) => a,
                    None => {
                        if remaining == 0 {
                            RAct::Eof
                        } else {
                            RAct::Deliver(remaining.min(want))
                        }
                    }
                }
            }
            Mode::Gen { rng, policy, burst_left } => {
                if let Some(k) = policy.sticky_at {
                    if self.pos as usize >= k {
                        return RAct::Fail;
                    }
                }
                if policy.transient_at_read == Some(reads) {
                    return RAct::Fail;
                }
                if *burst_left > 0 {
                    *burst_left -= 1;
                    return RAct::Eintr;
                }
                match policy.eintr {
                    Eintr::Never => {}
                    Eintr::Rate(n, d) => {
                        if rng.chance(n, d) {
                            return RAct::Eintr;
                        }
                    }
                    Eintr::Burst(m) => {
                        if rng.chance(1, 6) {
                            *burst_left = rng.below(m);
                            return RAct::Eintr;
                        }
                    }
                }
                if remaining == 0 {
                    return RAct::Eof;
                }
                let mut n = match policy.chunk {
                    Chunk::One => 1,
                    Chunk::Fixed(k) => k,
                    Chunk::UpTo(k) => rng.range(1, k as u64) as usize,
                    Chunk::Full => usize::MAX,
                };
                n = n.min(remaining).min(want);
                let p = self.pos as usize;
                // never cross a cut, never cross the sticky offset
                for &c in policy.cuts.iter().chain(policy.sticky_at.iter()) {
                    if c > p && c < p + n {
                        n = c - p;
                    }
                }
                RAct::Deliver(n.max(1))
            }
        }
    }
}

impl Read for SimReader {
    fn read(&mut self, buf: &mut [u8]) -> io::Result<usize> {
        hook::src_event();
        self.log.borrow_mut().started_at = self.base;
        if buf.is_empty() {
            return Ok(0);
        }
        let act = self.decide(buf.len());
        let mut log = self.log.borrow_mut();
        log.reads += 1;
        log.trace.push(act);
        log.max_req = log.max_req.max(buf.len());
        match act {
            RAct::Deliver(n) => {
                let p = self.pos as usize;
                let n = n.min(buf.len()).min(self.data.len().saturating_sub(p));
                if let Some(k) = self.sticky_at {
                    if p + n > k {
                        log.read_ok_after_sticky = true;
                    }
                }
                buf[..n].copy_from_slice(&self.data[p..p + n]);
                self.pos += n as u64;
                log.bytes_delivered += n as u64;
                log.max_pos = log.max_pos.max(self.pos);
                if n < buf.len() && p + n < self.data.len() {
                    log.short_reads += 1;
                }
                if n == 1 {
                    log.one_byte_reads += 1;
                }
                Ok(n)
            }
            RAct::Eintr => {
                log.eintr += 1;
                Err(io::Error::new(io::ErrorKind::Interrupted, "sim: EINTR"))
            }
            RAct::Fail => {
                log.fails += 1;
                Err(io::Error::new(io::ErrorKind::Other, "sim: device error"))
            }
            RAct::Eof => {
                log.eof_hits += 1;
                Ok(0)
            }
        }
    }
}

impl Seek for SimReader {
    fn seek(&mut self, from: SeekFrom) -> io::Result<u64> {
        hook::src_event();
        let len = self.data.len() as i128;
        let target: i128 = match from {
            SeekFrom::Start(n) => n as i128,
            SeekFrom::Current(d) => self.pos as i128 + d as i128,
            SeekFrom::End(d) => len + d as i128,
        };
        let mut log = self.log.borrow_mut();
        log.seeks += 1;
        if target < 0 {
            log.negative_seek = true;
            return Err(io::Error::new(io::ErrorKind::InvalidInput, "sim: seek before start"));
        }
        if (target as u64) < self.base {
            // monitor: the parser left its own input and wandered into what preceded it in the device
            log.negative_seek = true;
        }
        if (target as u64) < self.pos {
            log.backward_seeks += 1;
            log.max_backward = log.max_backward.max(self.pos - target as u64);
        }
        self.pos = target as u64;
        Ok(self.pos)
    }
}

// ---------------------------------------------------------------------------------------------

#[derive(Clone, Copy, Debug, PartialEq, Eq, Serialize, Deserialize)]
pub enum Hint {
    Exact,
    Unknown,
    /// (lower slack, upper slack): reports (n - lo, Some(n + hi))
    Loose(usize, usize),
    /// what filtering adaptors report: (0, Some(n + hi)) — no lower bound, a finite upper bound
    UpperOnly(usize),
}

impl Hint {
    pub fn gen(rng: &mut Rng) -> Hint {
        match rng.below(5) {
            0 | 1 => Hint::Exact,
            2 => Hint::Unknown,
            3 => Hint::UpperOnly(rng.usize(4)),
            _ => Hint::Loose(rng.usize(5), rng.usize(5)),
        }
    }
    pub fn report(self, n: usize) -> (usize, Option<usize>) {
        match self {
            Hint::Exact => (n, Some(n)),
            Hint::Unknown => (0, None),
            Hint::Loose(lo, hi) => (n.saturating_sub(lo), Some(n + hi)),
            Hint::UpperOnly(hi) => (0, Some(n + hi)),
        }
    }
}

#[derive(Clone, Debug, Default)]
pub struct IterLog {
    pub pulls: u64,
    pub items: u64,
    pub pulls_after_exhaustion: u64,
    pub size_hint_calls: u64,
    /// monitor (O3): indices handed out strictly ascending, each at most once
    pub order_violation: bool,
    pub last_index: Option<usize>,
    pub clones: u64,
}

pub struct SimIter<T> {
    items: Rc<Vec<T>>,
    next: usize,
    hint: Hint,
    log: Rc<RefCell<IterLog>>,
}

impl<T: Clone> SimIter<T> {
    pub fn new(items: Rc<Vec<T>>, hint: Hint) -> (SimIter<T>, Rc<RefCell<IterLog>>) {
        let log = Rc::new(RefCell::new(IterLog::default()));
        (SimIter { items, next: 0, hint, log: log.clone() }, log)
    }
}

impl<T: Clone> Iterator for SimIter<T> {
    type Item = T;
    fn next(&mut self) -> Option<T> {
        hook::src_event();
        let mut log = self.log.borrow_mut();
        log.pulls += 1;
        if self.next < self.items.len() {
            let i = self.next;
            if let Some(l) = log.last_index {
                if i <= l {
                    log.order_violation = true;
                }
            }
            log.last_index = Some(i);
            log.items += 1;
            self.next += 1;
            Some(self.items[i].clone())
        } else {
            log.pulls_after_exhaustion += 1;
            None
        }
    }
    fn size_hint(&self) -> (usize, Option<usize>) {
        self.log.borrow_mut().size_hint_calls += 1;
        self.hint.report(self.items.len() - self.next)
    }
}

/// Only handed out when the hint is exact (the ExactSizeIterator contract).
impl<T: Clone> ExactSizeIterator for SimIter<T> {}

/// Clonable iterator for IterInput: rewind = clone. Clones and pulls are seam events.
pub struct SimCloneIter<T> {
    items: Rc<Vec<T>>,
    next: usize,
    hint: Hint,
    log: Rc<RefCell<IterLog>>,
}

impl<T: Clone> SimCloneIter<T> {
    pub fn new(items: Rc<Vec<T>>, hint: Hint) -> (SimCloneIter<T>, Rc<RefCell<IterLog>>) {
        let log = Rc::new(RefCell::new(IterLog::default()));
        (SimCloneIter { items, next: 0, hint, log: log.clone() }, log)
    }
}

impl<T: Clone> Clone for SimCloneIter<T> {
    fn clone(&self) -> Self {
        hook::src_event();
        self.log.borrow_mut().clones += 1;
        SimCloneIter { items: self.items.clone(), next: self.next, hint: self.hint, log: self.log.clone() }
    }
}

impl<T: Clone> Iterator for SimCloneIter<T> {
    type Item = T;
    fn next(&mut self) -> Option<T> {
        hook::src_event();
        let mut log = self.log.borrow_mut();
        log.pulls += 1;
        if self.next < self.items.len() {
            self.next += 1;
            log.items += 1;
            Some(self.items[self.next - 1].clone())
        } else {
            log.pulls_after_exhaustion += 1;
            None
        }
    }
    fn size_hint(&self) -> (usize, Option<usize>) {
        self.log.borrow_mut().size_hint_calls += 1;
        self.hint.report(self.items.len() - self.next)
    }
}
