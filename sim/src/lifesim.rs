//! C12 — recursive parsers equal their unrolling and nest to any depth.
//!
//! A case is a *lifecycle history* (declare / define / define-again / clone / box / drop / parse)
//! of one recursive grammar, executed on a thread whose native stack is a seeded resource limit
//! (64 KiB … 8 MiB), on an input nested 0 … 10^6 levels deep. Oracles: bounded unrolling built
//! without `Recursive` (run on a separate big-stack thread), generator-known expectation beyond
//! the unrolling bound (calibrated against the unrolling), survival of the worker process, and
//! "a second define panics at the definition site and changes nothing".

use crate::hook;
use crate::norm::norm_err;
use crate::pool::{Acc, Engine, Violation};
use crate::prng::{fold, fold_bytes, Rng};
use crate::val::{Outcome, Val};
use chumsky::pratt::{infix, left, postfix, prefix, right};
use chumsky::prelude::*;
use chumsky::recursive::{Direct, Indirect, Recursive};
use chumsky::Boxed;
use serde::{Deserialize, Serialize};
use serde_json::json;
use std::panic::{catch_unwind, AssertUnwindSafe};
use std::sync::Arc;

type In<'a> = &'a [u8];
type Er<'a> = extra::Err<Rich<'a, u8>>;
type O = (u64, u64);
type BX<'a> = Boxed<'a, 'a, In<'a>, O, Er<'a>>;
type RD<'a> = Recursive<Direct<'a, 'a, In<'a>, O, Er<'a>>>;
type RI<'a> = Recursive<Indirect<'a, 'a, In<'a>, O, Er<'a>>>;

#[derive(Clone, Copy, Debug, PartialEq, Eq, Hash, Serialize, Deserialize)]
pub enum Tmpl {
    /// P = '(' P ')' | 'x'
    Paren,
    /// P = '[' (P (',' P)*)? ']' | 'a'
    List,
    /// P = 'n' P | 'z'
    Chain,
    /// A = '(' B ')' | 'a' ; B = '[' A ']' | 'b'   (declare/define only)
    Mutual,
    /// E = pratt over atom = 'x' | '(' E ')' with prefix '-', infix '^' (right), '+' (left)
    PrattGroup,
    /// P = '(' P ')' | '[' P ']' | '{' P '}' | 'x'
    Brackets,
    /// pure Pratt, no Recursive: 'x' with prefix '-', infix-right '^', postfix '!'
    PrattChain,
    /// pure Pratt with a mixed table: two prefix operators '-' '~', infix-left '+', infix-right '^'
    /// (seeded powers, often equal), postfix '!'; inputs nest through *alternating* operators
    /// (prefix/prefix, left/right infix at one power), runs of one operator, and random mixes
    PrattMix,
    /// three mutually recursive declared parsers, defined in a seeded order, some through a clone of
    /// the declared handle:  A = '(' B ')' | 'a' ;  B = '[' C ']' | 'b' ;  C = '{' A '}' | '<' B '>' | 'c'
    Triple,
    /// a recursive parser created inside the definition of another one and referring to it:
    /// P = '(' Q ')' | 'x' ;  Q = '[' Q ']' | '<' P '>' | 'y'   (recursive() inside recursive(),
    /// recursive() inside declare/define, and the other way round)
    Nested,
    /// recursion driven by the CONTEXT, not by the input: P re-enters itself through map_ctx with a
    /// smaller context at the same input offset and only the innermost level consumes the single
    /// token:  P(n) = if n == 0 { 'x' } else { P(n - 1) }   (used as P.with_ctx(depth) on "x")
    CtxDepth,
}

pub const TEMPLATES: [Tmpl; 11] = [Tmpl::Paren, Tmpl::List, Tmpl::Chain, Tmpl::Mutual, Tmpl::PrattGroup, Tmpl::Brackets, Tmpl::PrattChain, Tmpl::PrattMix, Tmpl::Triple, Tmpl::Nested, Tmpl::CtxDepth];

#[derive(Clone, Copy, Debug, PartialEq, Eq, Hash, Serialize, Deserialize)]
pub enum Form {
    Direct,
    Indirect,
}

#[derive(Clone, Debug, PartialEq, Eq, Serialize, Deserialize)]
pub enum Variant {
    WellFormed,
    /// keep only the first k bytes (a proper prefix)
    Truncated(usize),
    /// replace the byte at position k (a closer) by a wrong one
    WrongAt(usize),
    /// append one surplus closer
    Surplus,
}

#[derive(Clone, Debug, PartialEq, Eq, Serialize, Deserialize)]
pub enum Op {
    Clone(usize),
    Drop(usize),
    Boxed(usize),
    Parse(usize),
    Check(usize),
    DefineAgain(usize),
    /// Parse / Check started from a stack segment the APPLICATION allocated with `stacker::grow`
    /// (as rustc-style `ensure_sufficient_stack` wrappers do): one thread then enters the recursive
    /// parser from different stack segments in the course of a history.
    ParseOnSegment(usize, bool),
}

#[derive(Clone, Debug, PartialEq, Eq, Serialize, Deserialize)]
pub struct LifeCase {
    pub tmpl: Tmpl,
    pub form: Form,
    pub pads: Vec<u8>,
    pub stack_kib: usize,
    pub depth: usize,
    pub shape_seed: u64,
    pub variant: Variant,
    pub ops: Vec<Op>,
    /// compare with the unrolling when the number of opener tokens is <= this
    pub unroll_max: usize,
    /// declare/define forms only: a parse through the still-undefined parser (it panics; the panic is
    /// caught) *before* the first definition: 1 = through a clone of the handle, 2 = through a boxed
    /// clone. The first definition must still be accepted afterwards and behave as usual.
    #[serde(default)]
    pub premature: u8,
    /// recursive() forms only, k > 0: the LAST operation of the history parses through a clone of the
    /// handle that `recursive()` handed to its closure (kept by the closure), and the k-th user-closure
    /// call of that parse drops every owning handle there is. "May be dropped freely": the parse in
    /// flight must finish like the expansion, and the definition must stay alive until it has.
    #[serde(default)]
    pub drop_owners_at: u64,
}

// ---------------------------------------------------------------------------------------------
// Grammar bodies (shared by the recursive form and by the unrolling)

thread_local! {
    /// Pratt binding powers of the case being built (prefix, infix-right, third operator); derived
    /// from the case's shape seed so that replay needs nothing else.
    static BP: std::cell::Cell<[u16; 5]> = const { std::cell::Cell::new([3, 1, 2, 1, 2]) };
}

/// Half of the cases keep the template's own powers; the other half draw each from 0..=3
/// (binding power 0 is legal and is what the loosest operator of a real grammar often has).
fn set_bp(shape_seed: u64) {
    let s = crate::prng::mix64(shape_seed ^ 0xB1D);
    let v = if s & 1 == 0 { [u16::MAX; 5] } else { [((s >> 8) % 4) as u16, ((s >> 16) % 4) as u16, ((s >> 24) % 4) as u16, ((s >> 32) % 4) as u16, ((s >> 40) % 4) as u16] };
    BP.with(|b| b.set(v));
}

fn bp(i: usize, default: u16) -> u16 {
    let v = BP.with(|b| b.get())[i];
    if v == u16::MAX {
        default
    } else {
        v
    }
}

thread_local! {
    /// How often user closures (map / map_with / fold functions of the template bodies) ran on this
    /// thread: part of what "behaves exactly like its expansion" means — in check mode the
    /// expansion calls none of them, so neither may the recursive parser.
    static CALLS: std::cell::Cell<u64> = const { std::cell::Cell::new(0) };
}
thread_local! {
    /// (fire at this many closure calls, what to run then): used to drop the owning handles mid-parse
    static AT_CALL: std::cell::RefCell<Option<(u64, Box<dyn FnOnce()>)>> = const { std::cell::RefCell::new(None) };
    /// a parse through the closure's own handle is in flight
    static IN_FLIGHT: std::cell::Cell<bool> = const { std::cell::Cell::new(false) };
    /// the definition (a value captured by its outermost closure) was dropped while IN_FLIGHT ...
    static DIED_IN_FLIGHT: std::cell::Cell<bool> = const { std::cell::Cell::new(false) };
    /// ... and one of its closures ran AFTER that (the definition's code was still in use). Being
    /// destroyed between the return of the outermost recursive call and the return of parse() is fine:
    /// that is when the last in-flight reference goes away.
    static USED_AFTER_DEATH: std::cell::Cell<bool> = const { std::cell::Cell::new(false) };
}
/// Captured by the outermost closure of a definition: tells when the definition is destroyed.
struct Tripwire;
impl Drop for Tripwire {
    fn drop(&mut self) {
        if IN_FLIGHT.with(|f| f.get()) {
            DIED_IN_FLIGHT.with(|d| d.set(true));
        }
    }
}
#[inline]
fn cnt<T>(x: T) -> T {
    let n = CALLS.with(|c| {
        c.set(c.get() + 1);
        c.get()
    });
    if DIED_IN_FLIGHT.with(|d| d.get()) && IN_FLIGHT.with(|f| f.get()) {
        USED_AFTER_DEATH.with(|u| u.set(true));
    }
    let due = AT_CALL.with(|a| matches!(&*a.borrow(), Some((k, _)) if *k == n));
    if due {
        if let Some((_, f)) = AT_CALL.with(|a| a.borrow_mut().take()) {
            f();
        }
    }
    x
}
thread_local! {
    /// Order-sensitive digest of the Pratt fold callbacks of one operation: which operator was folded
    /// and the span its callback was given, in the order the callbacks ran — i.e. the shape of the tree.
    static SHAPE: std::cell::Cell<u64> = const { std::cell::Cell::new(0) };
}
#[inline]
fn fold_seen(op: u8, span: SimpleSpan<usize>) {
    SHAPE.with(|s| s.set(crate::prng::fold(crate::prng::fold(s.get(), op as u64), ((span.start as u64) << 32) ^ span.end as u64)));
}
fn calls_reset() {
    CALLS.with(|c| c.set(0));
    SHAPE.with(|c| c.set(0));
}
/// closure calls in the low 32 bits, the fold-shape digest in the high 32: one number to compare
fn calls_get() -> u64 {
    let shape = SHAPE.with(|c| c.get());
    (CALLS.with(|c| c.get()) & 0xffff_ffff) | ((shape ^ (shape >> 32)) << 32)
}

/// pad kind with a big frame (at most MAX_HEAVY per body: ~35 KiB per level of recursion stays well
/// inside the 64 KiB the guard keeps free; the memory a deep parse needs is depth x frame, so these
/// cases are kept at depth <= HEAVY_MAX_DEPTH)
pub const HEAVY_PAD: u8 = 5;
pub const MAX_HEAVY: usize = 4;
pub const HEAVY_MAX_DEPTH: usize = 4000;

fn pad<'a>(p: BX<'a>, pads: &[u8]) -> BX<'a> {
    let mut p = p;
    for k in pads {
        if *k == HEAVY_PAD {
            // a user parser with a large frame: an 8 KiB local buffer stays on the stack while the
            // wrapped parser (and with it the whole next level of the recursion) runs
            let inner = p;
            p = custom(move |inp: &mut chumsky::input::InputRef<'a, '_, In<'a>, Er<'a>>| {
                let mut buf = [0u8; 8192];
                std::hint::black_box(&mut buf);
                let r = inp.parse(&inner);
                std::hint::black_box(&mut buf);
                r
            })
            .boxed();
            continue;
        }
        p = match k % 5 {
            0 => p.map(|x| cnt(x)).boxed(),
            1 => p.then_ignore(empty()).boxed(),
            2 => empty().ignore_then(p).boxed(),
            3 => p.labelled("pad").boxed(),
            _ => p
                .map_with(|x, e| {
                    let _ = e.span();
                    cnt(x)
                })
                .boxed(),
        };
    }
    p
}

fn body<'a>(t: Tmpl, pads: &[u8], me: BX<'a>, other: Option<BX<'a>>, second: bool) -> BX<'a> {
    let b: BX<'a> = match t {
        Tmpl::Paren => me.delimited_by(just(b'('), just(b')')).map(|(d, m)| cnt((d + 1, m))).or(just(b'x').to((0, 0))).boxed(),
        Tmpl::List => me
            .separated_by(just(b','))
            .collect::<Vec<O>>()
            .delimited_by(just(b'['), just(b']'))
            .map(|v: Vec<O>| cnt((1 + v.iter().map(|x| x.0).sum::<u64>(), 1 + v.iter().map(|x| x.1).max().unwrap_or(0))))
            .or(just(b'a').to((1, 0)))
            .boxed(),
        Tmpl::Chain => just(b'n').ignore_then(me).map(|(d, m)| cnt((d + 1, m))).or(just(b'z').to((0, 0))).boxed(),
        Tmpl::Mutual => {
            let o = other.expect("mutual needs the other parser");
            if !second {
                o.delimited_by(just(b'('), just(b')')).map(|(d, m)| cnt((d + 1, m))).or(just(b'a').to((0, 0))).boxed()
            } else {
                o.delimited_by(just(b'['), just(b']')).map(|(d, m)| cnt((d + 1, m))).or(just(b'b').to((0, 0))).boxed()
            }
        }
        Tmpl::PrattGroup => {
            let atom = just(b'x').to((0u64, 0u64)).or(me.delimited_by(just(b'('), just(b')')).map(|(d, m)| cnt((d + 1, m))));
            atom.pratt((
                prefix(bp(0, 3), just(b'-'), |_, r: O, e: &mut chumsky::input::MapExtra<'a, '_, In<'a>, Er<'a>>| {
            fold_seen(1, e.span());
            cnt((r.0, r.1 + 1))
        }),
                infix(right(bp(1, 1)), just(b'^'), |l: O, _, r: O, e: &mut chumsky::input::MapExtra<'a, '_, In<'a>, Er<'a>>| {
            fold_seen(4, e.span());
            cnt((l.0.max(r.0), l.1 + r.1 + 1))
        }),
                infix(left(bp(2, 2)), just(b'+'), |l: O, _, r: O, e: &mut chumsky::input::MapExtra<'a, '_, In<'a>, Er<'a>>| {
            fold_seen(3, e.span());
            cnt((l.0.max(r.0), l.1 + r.1 + 1))
        }),
            ))
            .boxed()
        }
        Tmpl::Brackets => choice((
            me.clone().delimited_by(just(b'('), just(b')')).map(|(d, m)| cnt((d + 1, m))),
            me.clone().delimited_by(just(b'['), just(b']')).map(|(d, m)| cnt((d + 1, m + 1))),
            me.delimited_by(just(b'{'), just(b'}')).map(|(d, m)| cnt((d + 1, m + 2))),
            just(b'x').to((0, 0)),
        ))
        .boxed(),
        Tmpl::PrattChain | Tmpl::PrattMix | Tmpl::Triple | Tmpl::Nested | Tmpl::CtxDepth => unreachable!(),
    };
    pad(b, pads)
}

type ErC<'a> = extra::Full<Rich<'a, u8>, (), usize>;
type BXC<'a> = Boxed<'a, 'a, In<'a>, O, ErC<'a>>;

fn ctx_body<'a>(me: BXC<'a>) -> BXC<'a> {
    use chumsky::input::MapExtra;
    let at_zero = empty::<In<'a>, ErC<'a>>().try_map_with(|(), e: &mut MapExtra<'a, '_, In<'a>, ErC<'a>>| if *e.ctx() == 0 { Ok(()) } else { Err(Rich::custom(e.span(), "ctx is not 0")) });
    let above_zero = empty::<In<'a>, ErC<'a>>().try_map_with(|(), e: &mut MapExtra<'a, '_, In<'a>, ErC<'a>>| if *e.ctx() > 0 { Ok(()) } else { Err(Rich::custom(e.span(), "ctx is 0")) });
    let deeper = chumsky::primitive::map_ctx::<_, O, In<'a>, ErC<'a>, ErC<'a>, _>(|d: &usize| d.saturating_sub(1), me);
    choice((at_zero.ignore_then(just(b'x').to((0u64, 0u64))), above_zero.ignore_then(deeper).map(|(d, m): O| cnt((d + 1, m))))).boxed()
}
fn never_c<'a>() -> BXC<'a> {
    empty().try_map(|(), span| Err::<O, _>(Rich::custom(span, "U0 reached: unrolling too shallow (harness)"))).boxed()
}

fn lvl<'a>(p: BX<'a>, o: u8, c: u8, dm: u64) -> BX<'a> {
    p.delimited_by(just(o), just(c)).map(move |(d, m): O| cnt((d + 1, m + dm))).boxed()
}

/// Triple: which = 0 (A, uses b), 1 (B, uses c), 2 (C, uses a and b)
fn triple_body<'a>(which: u8, pads: &[u8], a: BX<'a>, b: BX<'a>, c: BX<'a>) -> BX<'a> {
    let p: BX<'a> = match which {
        0 => lvl(b, b'(', b')', 0).or(just(b'a').to((0, 0))).boxed(),
        1 => lvl(c, b'[', b']', 0).or(just(b'b').to((0, 0))).boxed(),
        _ => choice((lvl(a, b'{', b'}', 0), lvl(b, b'<', b'>', 1), just(b'c').to((0u64, 0u64)).boxed())).boxed(),
    };
    pad(p, pads)
}

fn nested_p<'a>(pads: &[u8], q: BX<'a>) -> BX<'a> {
    pad(lvl(q, b'(', b')', 0).or(just(b'x').to((0, 0))).boxed(), pads)
}
fn nested_q<'a>(pads: &[u8], q: BX<'a>, p: BX<'a>) -> BX<'a> {
    pad(choice((lvl(q, b'[', b']', 0), lvl(p, b'<', b'>', 1), just(b'y').to((0u64, 0u64)).boxed())).boxed(), pads)
}

fn pratt_mix<'a>(pads: &[u8]) -> BX<'a> {
    let atom = pad(just(b'x').to((0u64, 0u64)).boxed(), pads);
    atom.pratt((
        prefix(bp(0, 1), just(b'-'), |_, r: O, e: &mut chumsky::input::MapExtra<'a, '_, In<'a>, Er<'a>>| {
            fold_seen(1, e.span());
            cnt((r.0, r.1 + 1))
        }),
        prefix(bp(1, 2), just(b'~'), |_, r: O, e: &mut chumsky::input::MapExtra<'a, '_, In<'a>, Er<'a>>| {
            fold_seen(2, e.span());
            cnt((r.0, r.1 + 1))
        }),
        infix(left(bp(2, 1)), just(b'+'), |l: O, _, r: O, e: &mut chumsky::input::MapExtra<'a, '_, In<'a>, Er<'a>>| {
            fold_seen(3, e.span());
            cnt((l.0.max(r.0), l.1 + r.1 + 1))
        }),
        infix(right(bp(3, 1)), just(b'^'), |l: O, _, r: O, e: &mut chumsky::input::MapExtra<'a, '_, In<'a>, Er<'a>>| {
            fold_seen(4, e.span());
            cnt((l.0.max(r.0), l.1 + r.1 + 1))
        }),
        postfix(bp(4, 3), just(b'!'), |l: O, _, e: &mut chumsky::input::MapExtra<'a, '_, In<'a>, Er<'a>>| {
            fold_seen(5, e.span());
            cnt((l.0, l.1 + 1))
        }),
    ))
    .boxed()
}

fn pratt_chain<'a>(pads: &[u8]) -> BX<'a> {
    let atom = pad(just(b'x').to((0u64, 0u64)).boxed(), pads);
    atom.pratt((
        prefix(bp(0, 2), just(b'-'), |_, r: O, e: &mut chumsky::input::MapExtra<'a, '_, In<'a>, Er<'a>>| {
            fold_seen(1, e.span());
            cnt((r.0, r.1 + 1))
        }),
        infix(right(bp(1, 1)), just(b'^'), |l: O, _, r: O, e: &mut chumsky::input::MapExtra<'a, '_, In<'a>, Er<'a>>| {
            fold_seen(4, e.span());
            cnt((l.0.max(r.0), l.1 + r.1 + 1))
        }),
        postfix(bp(2, 3), just(b'!'), |l: O, _, e: &mut chumsky::input::MapExtra<'a, '_, In<'a>, Er<'a>>| {
            fold_seen(5, e.span());
            cnt((l.0, l.1 + 1))
        }),
    ))
    .boxed()
}

thread_local! {
    /// depth of the CtxDepth case being built on this thread (the top-level context)
    static CTX_DEPTH: std::cell::Cell<usize> = const { std::cell::Cell::new(0) };
}

fn never<'a>() -> BX<'a> {
    empty().try_map(|(), span| Err::<O, _>(Rich::custom(span, "U0 reached: unrolling too shallow (harness)"))).boxed()
}

/// The same grammar with the self-reference expanded k times and *no* Recursive anywhere.
fn unroll<'a>(t: Tmpl, pads: &[u8], k: usize) -> BX<'a> {
    match t {
        Tmpl::PrattChain => pratt_chain(pads),
        Tmpl::PrattMix => pratt_mix(pads),
        Tmpl::Triple => {
            let (mut a, mut b, mut c) = (never(), never(), never());
            for _ in 0..k {
                let na = triple_body(0, pads, never(), b.clone(), never());
                let nb = triple_body(1, pads, never(), never(), c.clone());
                let nc = triple_body(2, pads, a.clone(), b.clone(), never());
                a = na;
                b = nb;
                c = nc;
            }
            a
        }
        Tmpl::CtxDepth => {
            let mut u = never_c();
            for _ in 0..k {
                u = ctx_body(u);
            }
            // the top-level context is the depth the input of the case stands for
            u.with_ctx(CTX_DEPTH.with(|d| d.get())).boxed()
        }
        Tmpl::Nested => {
            let (mut p, mut q) = (never(), never());
            for _ in 0..k {
                let nq = nested_q(pads, q.clone(), p.clone());
                p = nested_p(pads, nq.clone());
                q = nq;
            }
            p
        }
        Tmpl::Mutual => {
            let (mut a, mut b) = (never(), never());
            for _ in 0..k {
                let na = body(t, pads, never(), Some(b.clone()), false);
                let nb = body(t, pads, never(), Some(a.clone()), true);
                a = na;
                b = nb;
            }
            a
        }
        _ => {
            let mut u = never();
            for _ in 0..k {
                u = body(t, pads, u, None, false);
            }
            u
        }
    }
}

// ---------------------------------------------------------------------------------------------
// Inputs with generator-known expectation

pub fn openers(t: Tmpl) -> &'static [u8] {
    match t {
        Tmpl::Paren => b"(",
        Tmpl::List => b"[",
        Tmpl::Chain => b"n",
        Tmpl::Mutual => b"([",
        Tmpl::PrattGroup => b"(",
        Tmpl::Brackets => b"([{",
        Tmpl::PrattChain | Tmpl::PrattMix => b"",
        Tmpl::Triple => b"([{<",
        Tmpl::Nested => b"([<",
        Tmpl::CtxDepth => b"",
    }
}

/// Returns (input, expected output if well-formed, index range where closers live).
pub fn gen_input(t: Tmpl, depth: usize, shape_seed: u64) -> (Vec<u8>, O, usize) {
    let mut rng = Rng::new(shape_seed);
    let n = depth;
    match t {
        Tmpl::Paren => {
            let mut v = vec![b'('; n];
            v.push(b'x');
            let c0 = v.len();
            v.extend(std::iter::repeat(b')').take(n));
            (v, (n as u64, 0), c0)
        }
        Tmpl::Chain => {
            let mut v = vec![b'n'; n];
            v.push(b'z');
            let l = v.len();
            (v, (n as u64, 0), l)
        }
        Tmpl::Mutual => {
            let mut v: Vec<u8> = (0..n).map(|i| if i % 2 == 0 { b'(' } else { b'[' }).collect();
            v.push(if n % 2 == 0 { b'a' } else { b'b' });
            let c0 = v.len();
            for i in (0..n).rev() {
                v.push(if i % 2 == 0 { b')' } else { b']' });
            }
            (v, (n as u64, 0), c0)
        }
        Tmpl::Brackets => {
            let kinds: Vec<u8> = (0..n).map(|_| rng.below(3) as u8).collect();
            let mut v: Vec<u8> = kinds.iter().map(|k| b"([{"[*k as usize]).collect();
            v.push(b'x');
            let c0 = v.len();
            let mut m = 0u64;
            for k in kinds.iter().rev() {
                v.push(b")]}"[*k as usize]);
                m += *k as u64;
            }
            (v, (n as u64, m), c0)
        }
        Tmpl::List => {
            // a spine of depth n with a few siblings here and there; built iteratively
            if n == 0 {
                return (vec![b'a'], (1, 0), 1);
            }
            let mut left: Vec<u8> = Vec::new();
            let mut right_rev: Vec<u8> = Vec::new();
            let mut nodes = 0u64;
            for lvl in 0..n {
                left.push(b'[');
                nodes += 1;
                // siblings before the spine child (only where a child exists)
                if rng.chance(1, 8) {
                    for _ in 0..rng.range(1, 2) {
                        left.extend_from_slice(b"a,");
                        nodes += 1;
                    }
                }
                let mut r: Vec<u8> = Vec::new();
                if rng.chance(1, 8) {
                    for _ in 0..rng.range(1, 2) {
                        r.extend_from_slice(b",a");
                        nodes += 1;
                    }
                }
                r.push(b']');
                r.reverse();
                right_rev.extend(r);
                let _ = lvl;
            }
            // innermost: the spine child is a leaf, an empty list, or absent
            match rng.below(3) {
                0 => {
                    left.push(b'a');
                    nodes += 1;
                }
                _ => {
                    // "[]" at the bottom: handled by making the last level empty — remove nothing, the
                    // innermost '[' ... ']' simply has no child unless siblings were added
                    // ensure syntactic validity: a dangling "a," before nothing is invalid, so add a leaf
                    if left.ends_with(b",") || right_rev.last() == Some(&b',') {
                        left.push(b'a');
                        nodes += 1;
                    }
                }
            }
            let c0 = left.len();
            right_rev.reverse();
            left.extend(right_rev);
            // depth: n levels of lists; leaves have depth 0, a list has 1 + max child depth
            (left, (nodes, n as u64), c0)
        }
        Tmpl::PrattGroup => {
            // a sequence of n nesting steps, each '(' or '-', then x, optionally an infix tail, then closers
            let mut v = Vec::with_capacity(2 * n + 4);
            let mut parens = Vec::new();
            let mut ops = 0u64;
            for _ in 0..n {
                if rng.chance(1, 2) {
                    v.push(b'(');
                    parens.push(());
                } else {
                    v.push(b'-');
                    ops += 1;
                }
            }
            v.push(b'x');
            if rng.chance(1, 3) {
                v.extend_from_slice(if rng.chance(1, 2) { b"^x" } else { b"+x" });
                ops += 1;
            }
            let c0 = v.len();
            let d = parens.len() as u64;
            v.extend(std::iter::repeat(b')').take(parens.len()));
            (v, (d, ops), c0)
        }
        Tmpl::PrattChain => {
            let mut v = Vec::with_capacity(2 * n + 2);
            match rng.below(3) {
                0 => {
                    v.extend(std::iter::repeat(b'-').take(n));
                    v.push(b'x');
                }
                1 => {
                    v.push(b'x');
                    for _ in 0..n {
                        v.extend_from_slice(b"^x");
                    }
                }
                _ => {
                    v.push(b'x');
                    v.extend(std::iter::repeat(b'!').take(n));
                }
            }
            let l = v.len();
            (v, (0, n as u64), l)
        }
        Tmpl::Triple => {
            let (mut v, mut closers, mut st, mut m) = (Vec::with_capacity(2 * n + 1), Vec::with_capacity(n), 0u8, 0u64);
            for _ in 0..n {
                match st {
                    0 => {
                        v.push(b'(');
                        closers.push(b')');
                        st = 1;
                    }
                    1 => {
                        v.push(b'[');
                        closers.push(b']');
                        st = 2;
                    }
                    _ => {
                        if rng.chance(1, 2) {
                            v.push(b'{');
                            closers.push(b'}');
                            st = 0;
                        } else {
                            v.push(b'<');
                            closers.push(b'>');
                            st = 1;
                            m += 1;
                        }
                    }
                }
            }
            v.push([b'a', b'b', b'c'][st as usize]);
            let c0 = v.len();
            v.extend(closers.iter().rev());
            (v, (n as u64, m), c0)
        }
        Tmpl::Nested => {
            let (mut v, mut closers, mut at_q, mut m) = (Vec::with_capacity(2 * n + 1), Vec::with_capacity(n), false, 0u64);
            for _ in 0..n {
                if !at_q {
                    v.push(b'(');
                    closers.push(b')');
                    at_q = true;
                } else if rng.chance(1, 2) {
                    v.push(b'[');
                    closers.push(b']');
                } else {
                    v.push(b'<');
                    closers.push(b'>');
                    at_q = false;
                    m += 1;
                }
            }
            v.push(if at_q { b'y' } else { b'x' });
            let c0 = v.len();
            v.extend(closers.iter().rev());
            (v, (n as u64, m), c0)
        }
        Tmpl::CtxDepth => (vec![b'x'], (n as u64, 0), 1),
        Tmpl::PrattMix => {
            // n operators; every well-formed expression is consumed completely whatever the powers
            // are, and the folds only count operators
            let mut v = Vec::with_capacity(2 * n + 2);
            match rng.below(7) {
                0 => {
                    // two prefix operators alternating
                    for i in 0..n {
                        v.push(if i % 2 == 0 { b'-' } else { b'~' });
                    }
                    v.push(b'x');
                }
                1 => {
                    // random prefix mix
                    for _ in 0..n {
                        v.push(if rng.chance(1, 2) { b'-' } else { b'~' });
                    }
                    v.push(b'x');
                }
                2 => {
                    // left- and right-associative infix alternating
                    v.push(b'x');
                    for i in 0..n {
                        v.extend_from_slice(if i % 2 == 0 { b"+x" } else { b"^x" });
                    }
                }
                3 => {
                    v.push(b'x');
                    for _ in 0..n {
                        v.extend_from_slice(if rng.chance(1, 2) { b"+x" } else { b"^x" });
                    }
                }
                4 => {
                    // operands that are themselves prefixed:  x ^ -x + ~x ^ ...   (2 operators per step)
                    v.push(b'x');
                    for i in 0..n / 2 {
                        v.push(if i % 2 == 0 { b'^' } else { b'+' });
                        v.push(if rng.chance(1, 2) { b'-' } else { b'~' });
                        v.push(b'x');
                    }
                    if n % 2 == 1 {
                        v.push(b'!');
                    }
                }
                5 => {
                    // prefix run, atom, postfix run
                    let k = rng.usize(n + 1);
                    for i in 0..k {
                        v.push(if i % 3 == 0 { b'~' } else { b'-' });
                    }
                    v.push(b'x');
                    v.extend(std::iter::repeat(b'!').take(n - k));
                }
                _ => {
                    // everything mixed
                    let mut ops = 0;
                    loop {
                        while ops < n && rng.chance(1, 3) {
                            v.push(if rng.chance(1, 2) { b'-' } else { b'~' });
                            ops += 1;
                        }
                        v.push(b'x');
                        while ops < n && rng.chance(1, 4) {
                            v.push(b'!');
                            ops += 1;
                        }
                        if ops >= n {
                            break;
                        }
                        v.push(if rng.chance(1, 2) { b'+' } else { b'^' });
                        ops += 1;
                    }
                }
            }
            let l = v.len();
            (v, (0, n as u64), l)
        }
    }
}

/// Apply the variant; returns (input, Some(expected output) if it must be accepted / None if it must be rejected).
pub fn make_input(c: &LifeCase) -> (Vec<u8>, Option<O>) {
    let (mut v, exp, _c0) = gen_input(c.tmpl, c.depth, c.shape_seed);
    match &c.variant {
        Variant::WellFormed => (v, Some(exp)),
        Variant::Truncated(k) => {
            let k = (*k).min(v.len().saturating_sub(1));
            v.truncate(k);
            (v, None)
        }
        Variant::WrongAt(k) => {
            let k = (*k).min(v.len() - 1);
            v[k] = b'#';
            (v, None)
        }
        Variant::Surplus => {
            v.push(b'#');
            (v, None)
        }
    }
}

/// Is the variant guaranteed to be rejected by the language (so the generator expectation is sound)?
/// Proper prefixes of these bracket/chain languages are never in the language, except for the Pratt
/// templates where a prefix can be a complete expression — those are excluded from the value oracle.
fn rejection_is_certain(c: &LifeCase) -> bool {
    match c.variant {
        Variant::WellFormed => true,
        Variant::WrongAt(_) | Variant::Surplus => true,
        Variant::Truncated(_) => !matches!(c.tmpl, Tmpl::PrattGroup | Tmpl::PrattChain | Tmpl::PrattMix),
    }
}

// ---------------------------------------------------------------------------------------------
// Execution

fn norm<'a>(r: chumsky::ParseResult<O, Rich<'a, u8>>) -> Outcome {
    let (out, errs) = r.into_output_errors();
    Outcome::Finished { out: out.map(|(a, b)| Val::Seq(vec![Val::Num(a), Val::Num(b)])), errs: errs.iter().map(norm_err).collect() }
}
fn norm_chk<'a>(r: chumsky::ParseResult<(), Rich<'a, u8>>) -> Outcome {
    let (out, errs) = r.into_output_errors();
    Outcome::Checked { ok: out.is_some(), errs: errs.iter().map(norm_err).collect() }
}

enum H<'a> {
    Dir(RD<'a>),
    Ind(RI<'a>),
    Bx(BX<'a>),
}

impl<'a> H<'a> {
    fn run(&self, input: &'a [u8], check: bool) -> (Outcome, u64) {
        calls_reset();
        let o = self.run_inner(input, check);
        (o, calls_get())
    }
    fn run_inner(&self, input: &'a [u8], check: bool) -> Outcome {
        let r = catch_unwind(AssertUnwindSafe(|| match (self, check) {
            (H::Dir(p), false) => norm(p.parse(input)),
            (H::Ind(p), false) => norm(p.parse(input)),
            (H::Bx(p), false) => norm(p.parse(input)),
            (H::Dir(p), true) => norm_chk(p.check(input)),
            (H::Ind(p), true) => norm_chk(p.check(input)),
            (H::Bx(p), true) => norm_chk(p.check(input)),
        }));
        match r {
            Ok(o) => o,
            Err(_) => Outcome::Panicked { msg: hook::take_panic() },
        }
    }
    fn dup(&self) -> H<'a> {
        match self {
            H::Dir(p) => H::Dir(p.clone()),
            H::Ind(p) => H::Ind(p.clone()),
            H::Bx(p) => H::Bx(p.clone()),
        }
    }
    fn boxed(&self) -> H<'a> {
        match self {
            H::Dir(p) => H::Bx(p.clone().boxed()),
            H::Ind(p) => H::Bx(p.clone().boxed()),
            H::Bx(p) => H::Bx(p.clone().boxed()),
        }
    }
}

#[derive(Clone, Debug, PartialEq, Serialize, Deserialize)]
pub enum OpResult {
    /// outcome + number of user-closure calls during the operation
    Parsed(Outcome, u64),
    /// (panicked, message)
    DefineAgain(bool, String),
    Skipped,
    Done,
}

/// Build the recursive parser in the requested form and run the lifecycle history. Runs on the
/// resource-limited thread.
pub struct History {
    /// outcome of the premature parse, if the case has one (characterised only)
    pub premature: Option<Outcome>,
    /// panic message of the FIRST define of a declared parser, if it panicked
    pub first_define_refused: Option<String>,
    pub results: Vec<OpResult>,
    pub inner_parse: Option<InnerParse>,
}

/// Result of the final parse through the closure's own handle (see LifeCase::drop_owners_at).
pub struct InnerParse {
    pub outcome: Outcome,
    pub calls: u64,
    pub owners_dropped_mid_parse: bool,
    pub definition_died_in_flight: bool,
}

fn run_history<'a>(c: &LifeCase, input: &'a [u8]) -> History {
    set_bp(c.shape_seed);
    let kept_inner: std::rc::Rc<std::cell::RefCell<Option<RD<'a>>>> = Default::default();
    let mut pool: Vec<H<'a>> = Vec::new();
    // handles that are not entry points but stay alive until the history is over
    let mut keep: Vec<H<'a>> = Vec::new();
    let mut premature = None;
    let mut refused = None;
    let mut inner_parse = None;
    let early = |h: &RI<'a>| -> Option<Outcome> {
        match c.premature {
            0 => None,
            1 => Some(H::Ind(h.clone()).run(input, false).0),
            _ => Some(H::Bx(h.clone().boxed()).run(input, false).0),
        }
    };
    match (c.tmpl, c.form) {
        (Tmpl::PrattChain, _) => pool.push(H::Bx(pratt_chain(&c.pads))),
        (Tmpl::PrattMix, _) => pool.push(H::Bx(pratt_mix(&c.pads))),
        (Tmpl::Mutual, _) => {
            let mut a: RI<'a> = Recursive::declare();
            let mut b: RI<'a> = Recursive::declare();
            a.define(body(c.tmpl, &c.pads, never(), Some(b.clone().boxed()), false));
            // A is defined in terms of B, B is not defined yet: a parse through A that reaches B panics
            premature = early(&a);
            let bb = body(c.tmpl, &c.pads, never(), Some(a.clone().boxed()), true);
            if catch_unwind(AssertUnwindSafe(|| b.define(bb))).is_err() {
                refused = Some(hook::take_panic());
            }
            pool.push(H::Ind(a));
            // b stays alive through a's definition (Rc cycle), the local handle is dropped here
        }
        (Tmpl::Triple, _) => {
            // definition order, which definitions go through a CLONE of the declared handle, and whether
            // the handles of B and C outlive the history, all come from the shape seed
            let s = crate::prng::mix64(c.shape_seed ^ 0x7219);
            let orders: [[u8; 3]; 6] = [[0, 1, 2], [0, 2, 1], [1, 0, 2], [1, 2, 0], [2, 0, 1], [2, 1, 0]];
            let order = orders[(s % 6) as usize];
            let mut hs: [RI<'a>; 3] = [Recursive::declare(), Recursive::declare(), Recursive::declare()];
            for (step, which) in order.iter().enumerate() {
                let w = *which as usize;
                let bd = triple_body(*which, &c.pads, hs[0].clone().boxed(), hs[1].clone().boxed(), hs[2].clone().boxed());
                let via_clone = (s >> (8 + step)) & 1 == 1;
                let r = if via_clone {
                    let mut h2 = hs[w].clone();
                    catch_unwind(AssertUnwindSafe(move || h2.define(bd)))
                } else {
                    let h = &mut hs[w];
                    catch_unwind(AssertUnwindSafe(move || h.define(bd)))
                };
                if r.is_err() && refused.is_none() {
                    refused = Some(hook::take_panic());
                }
                if step == 0 {
                    premature = early(&hs[0]);
                }
            }
            let [a, b, cc] = hs;
            pool.push(H::Ind(a));
            if (s >> 16) & 1 == 1 {
                // keep B and C alive until the history is over
                keep.push(H::Ind(b));
                keep.push(H::Ind(cc));
            }
        }
        (Tmpl::CtxDepth, form) => {
            let depth = c.depth;
            match form {
                Form::Direct => {
                    let r = recursive(move |p| ctx_body(p.boxed()));
                    pool.push(H::Bx(r.with_ctx(depth).boxed()));
                }
                Form::Indirect => {
                    let mut r = Recursive::declare();
                    let bb = ctx_body(r.clone().boxed());
                    if catch_unwind(AssertUnwindSafe(|| r.define(bb))).is_err() {
                        refused = Some(hook::take_panic());
                    }
                    pool.push(H::Bx(r.with_ctx(depth).boxed()));
                }
            }
        }
        (Tmpl::Nested, form) => {
            let s = crate::prng::mix64(c.shape_seed ^ 0x4e57);
            let inner_direct = s & 1 == 0;
            let pads = c.pads.clone();
            // Q is built INSIDE P's definition and refers to P
            let mk_q = move |p: BX<'a>, pads: &[u8]| -> BX<'a> {
                if inner_direct {
                    let pads = pads.to_vec();
                    recursive(move |q| nested_q(&pads, q.boxed(), p)).boxed()
                } else {
                    let mut q: RI<'a> = Recursive::declare();
                    q.define(nested_q(pads, q.clone().boxed(), p));
                    q.boxed()
                }
            };
            match form {
                Form::Direct => {
                    let r: RD<'a> = recursive(move |p| {
                        let q = mk_q(p.boxed(), &pads);
                        nested_p(&pads, q)
                    });
                    pool.push(H::Dir(r));
                }
                Form::Indirect => {
                    let mut r: RI<'a> = Recursive::declare();
                    premature = early(&r);
                    let q = mk_q(r.clone().boxed(), &pads);
                    let bb = nested_p(&pads, q);
                    if catch_unwind(AssertUnwindSafe(|| r.define(bb))).is_err() {
                        refused = Some(hook::take_panic());
                    }
                    pool.push(H::Ind(r));
                }
            }
        }
        (t, Form::Direct) => {
            let pads = c.pads.clone();
            let stash = kept_inner.clone();
            let keep = c.drop_owners_at > 0;
            let r: RD<'a> = recursive(move |me| {
                if keep {
                    // the closure keeps a clone of the handle it was given (a non-owning one)
                    *stash.borrow_mut() = Some(me.clone());
                }
                let tw = Tripwire;
                body(t, &pads, me.boxed(), None, false)
                    .map(move |x| {
                        let _ = &tw;
                        x
                    })
                    .boxed()
            });
            pool.push(H::Dir(r));
        }
        (t, Form::Indirect) => {
            let mut r: RI<'a> = Recursive::declare();
            premature = early(&r);
            let bb = body(t, &c.pads, r.clone().boxed(), None, false);
            if catch_unwind(AssertUnwindSafe(|| r.define(bb))).is_err() {
                refused = Some(hook::take_panic());
            }
            pool.push(H::Ind(r));
        }
    }
    let mut out = Vec::new();
    for op in &c.ops {
        let n = pool.len();
        let res = match op {
            Op::Clone(i) if n > 0 => {
                let h = pool[i % n].dup();
                pool.push(h);
                OpResult::Done
            }
            Op::Boxed(i) if n > 0 => {
                let h = pool[i % n].boxed();
                pool.push(h);
                OpResult::Done
            }
            Op::Drop(i) if n > 1 => {
                pool.remove(i % n);
                OpResult::Done
            }
            Op::Parse(i) if n > 0 => {
                let (o, k) = pool[i % n].run(input, false);
                OpResult::Parsed(o, k)
            }
            Op::Check(i) if n > 0 => {
                let (o, k) = pool[i % n].run(input, true);
                OpResult::Parsed(o, k)
            }
            Op::ParseOnSegment(i, check) if n > 0 => {
                let h = &pool[i % n];
                let (o, k) = stacker::grow(192 * 1024, || h.run(input, *check));
                OpResult::Parsed(o, k)
            }
            Op::DefineAgain(i) if n > 0 => {
                // pick an Indirect handle if there is one
                let k = (0..n).map(|d| (i + d) % n).find(|k| matches!(pool[*k], H::Ind(_)));
                match k {
                    Some(k) => {
                        if let H::Ind(h) = &mut pool[k] {
                            // a *different* grammar: accepts only "q"
                            let r = catch_unwind(AssertUnwindSafe(|| h.define(just(b'q').to((77u64, 77u64)))));
                            match r {
                                Ok(()) => OpResult::DefineAgain(false, String::new()),
                                Err(_) => OpResult::DefineAgain(true, hook::take_panic()),
                            }
                        } else {
                            unreachable!()
                        }
                    }
                    None => OpResult::Skipped,
                }
            }
            _ => OpResult::Skipped,
        };
        out.push(res);
    }
    if c.drop_owners_at > 0 {
        if let Some(inner) = kept_inner.borrow_mut().take() {
            // every owning handle moves into the hook; the parse runs through the closure's own handle
            let owners: Vec<H<'a>> = std::mem::take(&mut pool);
            let hook_fn: Box<dyn FnOnce() + 'a> = Box::new(move || drop(owners));
            // SAFETY: the hook is run or cleared before this function returns
            let hook_fn: Box<dyn FnOnce() + 'static> = unsafe { std::mem::transmute(hook_fn) };
            AT_CALL.with(|a| *a.borrow_mut() = Some((c.drop_owners_at, hook_fn)));
            DIED_IN_FLIGHT.with(|d| d.set(false));
            USED_AFTER_DEATH.with(|d| d.set(false));
            IN_FLIGHT.with(|f| f.set(true));
            let (o, k) = H::Dir(inner.clone()).run(input, false);
            IN_FLIGHT.with(|f| f.set(false));
            // not reached by the parse: the owners are dropped now, after it
            let fired = AT_CALL.with(|a| a.borrow_mut().take()).is_none();
            inner_parse = Some(InnerParse { outcome: o, calls: k, owners_dropped_mid_parse: fired, definition_died_in_flight: USED_AFTER_DEATH.with(|d| d.get()) });
            drop(inner);
        }
    }
    drop(keep);
    History { premature, first_define_refused: refused, results: out, inner_parse }
}

/// Reference: the unrolling, on the calling (big-stack) thread.
fn run_unrolled(c: &LifeCase, input: &[u8], check: bool) -> (Outcome, u64) {
    calls_reset();
    let o = run_unrolled_inner(c, input, check);
    (o, calls_get())
}
fn run_unrolled_inner(c: &LifeCase, input: &[u8], check: bool) -> Outcome {
    let k = nesting(c, input) + 2;
    CTX_DEPTH.with(|d| d.set(c.depth));
    set_bp(c.shape_seed);
    let r = catch_unwind(AssertUnwindSafe(|| {
        let u = unroll(c.tmpl, &c.pads, k);
        let o = if check { norm_chk(u.check(input)) } else { norm(u.parse(input)) };
        drop(u);
        o
    }));
    match r {
        Ok(o) => o,
        Err(_) => Outcome::Panicked { msg: hook::take_panic() },
    }
}

/// How deep the recursion goes for this case: the opener tokens of the input, or (CtxDepth) the context.
fn nesting(c: &LifeCase, input: &[u8]) -> usize {
    if c.tmpl == Tmpl::CtxDepth {
        c.depth
    } else {
        let o = openers(c.tmpl);
        input.iter().filter(|b| o.contains(b)).count()
    }
}

pub struct CaseRun {
    pub results: Vec<OpResult>,
    pub failure: Option<(String, String)>,
    pub digest: u64,
    pub used_unrolling: bool,
    pub used_generator_oracle: bool,
    pub generator_vs_unrolling_disagree: bool,
    pub premature: Option<Outcome>,
    /// Some(true): the owners were dropped in the middle of the final parse; Some(false): that parse made fewer closure calls
    pub inner_fired: Option<bool>,
}

pub const DEFINE_ONCE_MSG: &str = "recursive parsers can only be defined once";

pub fn exec_case(c: &LifeCase) -> CaseRun {
    let (input, expect) = make_input(c);
    let input = Arc::new(input);
    let n_open = nesting(c, &input);
    // system under simulation: on the resource-limited thread
    let c2 = c.clone();
    let inp2 = input.clone();
    let handle = std::thread::Builder::new()
        .name("sut".into())
        .stack_size(c.stack_kib * 1024)
        .spawn(move || {
            let r = catch_unwind(AssertUnwindSafe(|| run_history(&c2, &inp2[..])));
            match r {
                Ok(v) => Ok(v),
                Err(_) => Err(hook::take_panic()),
            }
        })
        .expect("spawn sut thread");
    let results = match handle.join() {
        Ok(Ok(v)) => v,
        Ok(Err(msg)) => {
            return CaseRun { results: vec![], failure: Some(("history-panicked".into(), msg)), digest: 0, used_unrolling: false, used_generator_oracle: false, generator_vs_unrolling_disagree: false, premature: None, inner_fired: None }
        }
        Err(_) => {
            return CaseRun { results: vec![], failure: Some(("history-panicked".into(), "sut thread died".into())), digest: 0, used_unrolling: false, used_generator_oracle: false, generator_vs_unrolling_disagree: false, premature: None, inner_fired: None }
        }
    };
    let History { premature, first_define_refused, results, inner_parse } = results;
    let mut digest = fold_bytes(7, &input[..input.len().min(4096)]);
    let mut failure = None;
    if let Some(msg) = first_define_refused {
        // only a SECOND definition may be refused
        failure = Some(("first-define-refused".into(), format!("the first define() of a declared parser panicked (after a premature parse through it: {}): {}", premature.as_ref().map(|o| o.brief()).unwrap_or_default(), msg)));
    }
    if let Some(o) = &premature {
        digest = fold(digest, o.digest());
    }
    let use_unroll = n_open <= c.unroll_max;
    let mut ref_parse: Option<(Outcome, u64)> = None;
    let mut ref_check: Option<(Outcome, u64)> = None;
    let mut used_gen = false;
    let mut disagree = false;
    for (op, res) in c.ops.iter().zip(results.iter()) {
        match (op, res) {
            (Op::Parse(_) | Op::Check(_) | Op::ParseOnSegment(..), OpResult::Parsed(o, calls)) => {
                let check = matches!(op, Op::Check(_) | Op::ParseOnSegment(_, true));
                digest = fold(digest, o.digest());
                if use_unroll {
                    let slot = if check { &mut ref_check } else { &mut ref_parse };
                    if slot.is_none() {
                        *slot = Some(run_unrolled(c, &input, check));
                    }
                    let (r, rcalls) = slot.as_ref().unwrap();
                    if r != o && failure.is_none() {
                        failure = Some(("differs-from-unrolling".into(), format!("op {:?}: unrolled={} recursive={}", op, r.brief(), o.brief())));
                    }
                    if rcalls != calls && failure.is_none() {
                        let (rc, rs, c, sh) = (rcalls & 0xffff_ffff, rcalls >> 32, calls & 0xffff_ffff, calls >> 32);
                        failure = Some(if rc != c {
                            ("differs-from-unrolling(user-closure calls)".into(), format!("op {:?}: the expansion called the grammar's map/fold closures {} times, the recursive parser {} times (same outcome {})", op, rc, c, o.brief()))
                        } else {
                            ("differs-from-unrolling(fold order or callback spans)".into(), format!("op {:?}: the Pratt fold callbacks ran in another order or were given other spans (digest {:08x} on a stack that never switches segments, {:08x} here; {} calls each; same outcome {})", op, rs, sh, c, o.brief()))
                        });
                    }
                    // calibration of the generator expectation against the unrolling (never a violation)
                    if rejection_is_certain(c) {
                        let agrees = match (&expect, r) {
                            (Some((a, b)), Outcome::Finished { out: Some(Val::Seq(v)), errs }) => errs.is_empty() && v == &vec![Val::Num(*a), Val::Num(*b)],
                            (Some(_), Outcome::Checked { ok, errs }) => *ok && errs.is_empty(),
                            (None, Outcome::Finished { out: None, errs }) => !errs.is_empty(),
                            (None, Outcome::Checked { ok: false, errs }) => !errs.is_empty(),
                            _ => false,
                        };
                        if !agrees {
                            disagree = true;
                        }
                    }
                } else if rejection_is_certain(c) && calibrated(c.tmpl) {
                    used_gen = true;
                    let ok = match (&expect, o) {
                        (Some((a, b)), Outcome::Finished { out: Some(Val::Seq(v)), errs }) => errs.is_empty() && v == &vec![Val::Num(*a), Val::Num(*b)],
                        (Some(_), Outcome::Checked { ok, errs }) => *ok && errs.is_empty(),
                        (None, Outcome::Finished { out: None, errs }) => !errs.is_empty(),
                        (None, Outcome::Checked { ok: false, errs }) => !errs.is_empty(),
                        _ => false,
                    };
                    if !ok && failure.is_none() {
                        failure = Some(("deep-result-wrong".into(), format!("op {:?}: expected {:?}, recursive parser gave {}", op, expect, o.brief())));
                    }
                } else if o.is_panic() && failure.is_none() {
                    failure = Some(("deep-panic".into(), format!("op {:?}: {}", op, o.brief())));
                }
            }
            (Op::DefineAgain(_), OpResult::DefineAgain(panicked, msg)) => {
                digest = fold(digest, *panicked as u64 + 2);
                if failure.is_none() {
                    if !*panicked {
                        failure = Some(("second-define-accepted".into(), "a second define() returned normally".into()));
                    } else if !msg.contains(DEFINE_ONCE_MSG) {
                        failure = Some(("second-define-wrong-panic".into(), msg.clone()));
                    } else if !msg.contains("lifesim.rs") {
                        failure = Some(("second-define-not-at-definition-site".into(), msg.clone()));
                    }
                }
            }
            _ => {
                digest = fold(digest, 1);
            }
        }
    }
    let mut inner_fired = None;
    if let Some(ip) = &inner_parse {
        digest = fold(digest, ip.outcome.digest());
        inner_fired = Some(ip.owners_dropped_mid_parse);
        if failure.is_none() {
            if ip.definition_died_in_flight {
                failure = Some(("definition-destroyed-during-parse".into(), format!("every owning handle was dropped by the {}-th user closure of a parse running through the handle recursive() gave its closure; the definition was destroyed and its closures kept running afterwards (the parse returned {})", c.drop_owners_at, ip.outcome.brief())));
            } else if use_unroll {
                let (r, rcalls) = ref_parse.get_or_insert_with(|| run_unrolled(c, &input, false)).clone();
                if r != ip.outcome {
                    failure = Some(("differs-from-unrolling".into(), format!("parse through the closure's own handle while the owners are dropped mid-parse: unrolled={} recursive={}", r.brief(), ip.outcome.brief())));
                } else if rcalls != ip.calls {
                    failure = Some(("differs-from-unrolling(user-closure calls)".into(), format!("parse through the closure's own handle while the owners are dropped mid-parse: closure-call / fold digests differ ({:x} vs {:x})", rcalls, ip.calls)));
                }
            } else if ip.outcome.is_panic() {
                failure = Some(("deep-panic".into(), format!("parse through the closure's own handle: {}", ip.outcome.brief())));
            }
        }
    }
    CaseRun { results, failure, digest, used_unrolling: use_unroll, used_generator_oracle: used_gen, generator_vs_unrolling_disagree: disagree, premature, inner_fired }
}

// Calibration of the generator expectation: per template, shallow well-formed and malformed inputs
// are run through the *unrolling*; the deep value oracle is only used for templates where the
// generator's expectation and the unrolling agree (so a change to plain combinators can never turn
// into a C12 alarm through the generator oracle).
static CALIBRATED: std::sync::OnceLock<Vec<bool>> = std::sync::OnceLock::new();

fn calibrated(t: Tmpl) -> bool {
    let v = CALIBRATED.get_or_init(|| {
        TEMPLATES
            .iter()
            .map(|t| {
                let mut ok = true;
                for depth in 0..7usize {
                    for (vi, variant) in [Variant::WellFormed, Variant::Truncated(depth), Variant::WrongAt(depth + 1), Variant::Surplus].into_iter().enumerate() {
                        let c = LifeCase { tmpl: *t, form: Form::Direct, pads: vec![], stack_kib: 1024, depth, shape_seed: 11 + depth as u64 + vi as u64, variant, ops: vec![], unroll_max: 64, premature: 0, drop_owners_at: 0 };
                        if !rejection_is_certain(&c) {
                            continue;
                        }
                        let (input, expect) = make_input(&c);
                        let r = run_unrolled(&c, &input, false).0;
                        let agrees = match (&expect, &r) {
                            (Some((a, b)), Outcome::Finished { out: Some(Val::Seq(v)), errs }) => errs.is_empty() && v == &vec![Val::Num(*a), Val::Num(*b)],
                            (None, Outcome::Finished { out: None, errs }) => !errs.is_empty(),
                            _ => false,
                        };
                        ok &= agrees;
                    }
                }
                ok
            })
            .collect()
    });
    v[TEMPLATES.iter().position(|x| *x == t).unwrap()]
}

// ---------------------------------------------------------------------------------------------
// Case generation

pub const STACKS_KIB: [usize; 7] = [64, 96, 128, 256, 1024, 2048, 8192];

pub fn gen_case(seed: u64, idx: u64, tier: &str) -> LifeCase {
    let mut rng = Rng::for_case(seed, "lifesim", idx);
    let thorough = tier == "thorough";
    // exhaustive small depths first: idx -> (template, form, depth) for depth 0..=64
    let n_small = (TEMPLATES.len() * 2 * 65) as u64;
    let (tmpl, form, depth) = if idx < n_small {
        let t = TEMPLATES[(idx % TEMPLATES.len() as u64) as usize];
        let f = if (idx / TEMPLATES.len() as u64) % 2 == 0 { Form::Direct } else { Form::Indirect };
        (t, f, (idx / (TEMPLATES.len() as u64 * 2)) as usize)
    } else {
        let t = *rng.pick(&TEMPLATES);
        let f = if rng.chance(1, 2) { Form::Direct } else { Form::Indirect };
        // depth classes: mostly up to 10^4; a slice at 10^5; a few at 10^6
        let (hi5, hi6) = if thorough { (40, 400) } else { (100, 1250) };
        let d = if idx % hi6 == 7 {
            rng.log_range(300_000, 1_000_000)
        } else if idx % hi5 == 3 {
            rng.log_range(20_000, 100_000)
        } else if rng.chance(1, 3) {
            rng.range(0, 80)
        } else {
            rng.log_range(1, 10_000)
        };
        (t, f, d as usize)
    };
    let npads = rng.below(13) as usize;
    let mut pads: Vec<u8> = (0..npads).map(|_| rng.below(5) as u8).collect();
    // one case in six has big frames (see HEAVY_PAD)
    if depth <= HEAVY_MAX_DEPTH && rng.chance(1, 6) {
        for _ in 0..rng.range(1, MAX_HEAVY as u64) {
            let at = rng.usize(pads.len() + 1);
            pads.insert(at, HEAVY_PAD);
        }
    }
    let stack_kib = *rng.pick(&STACKS_KIB);
    let shape_seed = rng.next_u64();
    let (base, _, c0) = gen_input(tmpl, depth, shape_seed);
    let variant = match rng.below(8) {
        0 | 1 | 2 | 3 => Variant::WellFormed,
        4 => Variant::Truncated(rng.usize(base.len())),
        5 => Variant::Truncated(base.len().saturating_sub(1 + rng.usize(3))),
        6 => {
            // a wrong closer somewhere in the closing half (or anywhere if there is none)
            if c0 < base.len() {
                Variant::WrongAt(c0 + rng.usize(base.len() - c0))
            } else {
                Variant::WrongAt(rng.usize(base.len()))
            }
        }
        _ => Variant::Surplus,
    };
    let mut ops = Vec::new();
    let nops = rng.range(1, 10);
    for _ in 0..nops {
        let i = rng.usize(8);
        ops.push(match rng.below(13) {
            12 => Op::ParseOnSegment(i, rng.chance(1, 3)),
            0 | 1 | 2 => Op::Clone(i),
            3 | 4 => Op::Drop(i),
            5 => Op::Drop(0), // the handle recursive()/declare() returned
            6 => Op::Boxed(i),
            7 | 8 => Op::Parse(i),
            9 => Op::Check(i),
            _ => Op::DefineAgain(i),
        });
    }
    ops.push(if rng.chance(3, 4) { Op::Parse(rng.usize(8)) } else { Op::Check(rng.usize(8)) });
    // deep cases: parse once or twice only (each 10^6 parse costs ~0.2 s)
    if depth > 50_000 {
        let mut seen = 0;
        ops.retain(|o| {
            if matches!(o, Op::Parse(_) | Op::Check(_) | Op::ParseOnSegment(..)) {
                seen += 1;
                seen <= 1
            } else {
                true
            }
        });
        if seen == 0 {
            ops.push(Op::Parse(0));
        }
    }
    let unroll_max = if thorough { 20_000 } else { 2_000 };
    // drawn last so that every other field of a case stays what it was before this field existed
    let premature = if (form == Form::Indirect || tmpl == Tmpl::Mutual || tmpl == Tmpl::Triple) && rng.chance(1, 5) { 1 + rng.below(2) as u8 } else { 0 };
    // (drawn after everything else, like `premature`)
    let plain_direct = form == Form::Direct && matches!(tmpl, Tmpl::Paren | Tmpl::List | Tmpl::Chain | Tmpl::PrattGroup | Tmpl::Brackets);
    let drop_owners_at = if plain_direct && rng.chance(1, 8) { 1 + rng.below((depth as u64).clamp(1, 40)) } else { 0 };
    LifeCase { tmpl, form, pads, stack_kib, depth, shape_seed, variant, ops, unroll_max, premature, drop_owners_at }
}

pub struct LifeSim;

impl Engine for LifeSim {
    fn name(&self) -> &'static str {
        "lifesim"
    }
    fn property(&self) -> &'static str {
        "C12"
    }
    fn cases(&self, tier: &str) -> u64 {
        if tier == "thorough" {
            400_000
        } else {
            20_000
        }
    }
    fn stack_bytes(&self) -> usize {
        // big enough for the unrolled reference at the largest unroll bound and for dropping it
        2 << 30
    }
    fn run_case(&self, seed: u64, idx: u64, tier: &str, acc: &mut Acc) -> u64 {
        let c = gen_case(seed, idx, tier);
        let run = exec_case(&c);
        acc.inc("evaluations.cases");
        acc.add("evaluations.lifecycle_ops", c.ops.len() as u64);
        acc.add("evaluations.parses", run.results.iter().filter(|r| matches!(r, OpResult::Parsed(..))).count() as u64);
        acc.inc(&format!("template.{:?}", c.tmpl));
        acc.inc(&format!("form.{:?}", c.form));
        acc.inc(&format!("stack_kib.{}", c.stack_kib));
        acc.inc(&format!("variant.{}", match c.variant { Variant::WellFormed => "well_formed", Variant::Truncated(_) => "truncated", Variant::WrongAt(_) => "wrong_token", Variant::Surplus => "surplus_token" }));
        let dclass = match c.depth {
            0..=64 => "depth.0-64",
            65..=999 => "depth.65-999",
            1000..=9_999 => "depth.1e3-1e4",
            10_000..=99_999 => "depth.1e4-1e5",
            100_000..=299_999 => "depth.1e5-3e5",
            _ => "depth.3e5-1e6",
        };
        acc.inc(dclass);
        acc.max("max.depth", c.depth as u64);
        if run.used_unrolling {
            acc.inc("oracle.compared_with_unrolling");
        }
        if run.used_generator_oracle {
            acc.inc("oracle.compared_with_generator_expectation");
        }
        if run.generator_vs_unrolling_disagree {
            acc.inc("calibration.generator_disagrees_with_unrolling(not a violation)");
        }
        let fired_again = run.results.iter().filter(|r| matches!(r, OpResult::DefineAgain(..))).count() as u64;
        acc.add("fired.define_again", fired_again);
        acc.add("fired.drop_original_handle", c.ops.iter().filter(|o| matches!(o, Op::Drop(0))).count() as u64);
        acc.add("fired.clone", c.ops.iter().filter(|o| matches!(o, Op::Clone(_))).count() as u64);
        acc.add("fired.boxed", c.ops.iter().filter(|o| matches!(o, Op::Boxed(_))).count() as u64);
        acc.add("fired.parse_started_on_an_application_allocated_stack_segment", c.ops.iter().filter(|o| matches!(o, Op::ParseOnSegment(..))).count() as u64);
        match run.inner_fired {
            Some(true) => acc.inc("fired.owners_dropped_by_a_callback_in_the_middle_of_a_parse_through_the_closure's_handle"),
            Some(false) => acc.inc("configured.owners_drop_mid_parse_not_reached(parse made fewer closure calls)"),
            None => {}
        }
        if let Some(o) = &run.premature {
            acc.inc("fired.premature_parse_before_first_define");
            if o.is_panic() {
                acc.inc("fired.premature_parse_panicked(used before being defined; characterised only)");
            }
        }
        acc.add("sim_steps.lifecycle_ops_plus_input_tokens", c.ops.len() as u64 + (2 * c.depth as u64 + 1) * run.results.iter().filter(|r| matches!(r, OpResult::Parsed(..))).count() as u64);
        let pos_parse = c.ops.iter().position(|o| matches!(o, Op::Parse(_) | Op::Check(_) | Op::ParseOnSegment(..))).unwrap_or(0);
        let lifecycle_nontrivial = c.ops.len() >= 3 && c.ops[..c.ops.len() - 1].iter().any(|o| matches!(o, Op::Drop(_) | Op::DefineAgain(_))) && pos_parse < c.ops.len();
        let depth_nontrivial = c.depth >= 1000 && c.stack_kib <= 256;
        let d = fold(run.digest, fold_bytes(3, serde_json::to_string(&c).unwrap().as_bytes()));
        if lifecycle_nontrivial || depth_nontrivial {
            acc.distinct("nontrivial_cases", d);
        }
        if depth_nontrivial {
            acc.inc("cases.deep_on_small_stack(depth>=1000,stack<=256KiB)");
        }
        acc.distinct("cases", d);
        acc.sample("samples", idx, 6, || json!({"case": idx, "spec": c, "results": run.results.iter().map(|r| match r { OpResult::Parsed(o, k) => format!("{} closures={}", o.brief(), k), x => format!("{:?}", x) }).collect::<Vec<_>>() }));
        if let Some((class, detail)) = run.failure {
            acc.violations.push(Violation {
                property: "C12".into(),
                engine: "lifesim".into(),
                seed,
                case: idx,
                class: class.clone(),
                summary: format!("{}: {} | case={}", class, detail, serde_json::to_string(&c).unwrap()),
                replay: json!({"engine": "lifesim", "property": "C12", "seed": seed, "case": idx, "class": class, "detail": detail, "spec": c}),
            });
        }
        d
    }
}

/// Replay an explicit case; Some(class) if it fails. (A crash kills the process: that *is* the reproduction.)
pub fn replay(c: &LifeCase) -> Option<(String, String)> {
    exec_case(c).failure
}

/// Candidate simplifications for the minimiser, most aggressive first.
pub fn shrink_candidates(c: &LifeCase) -> Vec<LifeCase> {
    let mut v = Vec::new();
    if c.depth > 0 {
        for d in [c.depth / 2, c.depth * 3 / 4, c.depth - 1] {
            if d < c.depth {
                let mut x = c.clone();
                x.depth = d;
                if let Variant::Truncated(k) | Variant::WrongAt(k) = &mut x.variant {
                    let (b, _, _) = gen_input(x.tmpl, d, x.shape_seed);
                    *k = (*k).min(b.len().saturating_sub(1));
                }
                v.push(x);
            }
        }
    }
    for i in 0..c.ops.len() {
        if c.ops.len() > 1 {
            let mut x = c.clone();
            x.ops.remove(i);
            if x.ops.iter().any(|o| matches!(o, Op::Parse(_) | Op::Check(_) | Op::ParseOnSegment(..) | Op::DefineAgain(_))) {
                v.push(x);
            }
        }
    }
    if !c.pads.is_empty() {
        let mut x = c.clone();
        x.pads.clear();
        v.push(x);
        let mut x = c.clone();
        x.pads.pop();
        v.push(x);
    }
    if c.variant != Variant::WellFormed {
        let mut x = c.clone();
        x.variant = Variant::WellFormed;
        v.push(x);
    }
    if c.premature != 0 {
        let mut x = c.clone();
        x.premature = 0;
        v.push(x);
    }
    if c.drop_owners_at > 1 {
        let mut x = c.clone();
        x.drop_owners_at = 1;
        v.push(x);
    }
    if let Some(pos) = STACKS_KIB.iter().position(|s| *s == c.stack_kib) {
        if pos + 1 < STACKS_KIB.len() {
            let mut x = c.clone();
            x.stack_kib = STACKS_KIB[pos + 1];
            v.push(x);
        }
    }
    v
}
