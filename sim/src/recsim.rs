//! C12, clause (i) on *generated* grammars: a parser defined with `recursive(..)` or with
//! `Recursive::declare/define` behaves exactly like the same grammar with the self-reference
//! expanded as deeply as the input requires.
//!
//! lifesim decides the history- and resource-dependent part of C12 on seven fixed templates; this
//! engine widens the "equals its unrolling" oracle of that workload to arbitrary generated grammars:
//! one grammar AST with a `Rec` node is built three ways — `recursive()`, `declare()/define()`, and
//! with NO `Recursive` at all (the self-reference expanded input-length + 2 times with plain
//! combinators, which the guarded self-reference can never exhaust) — and a seeded lifecycle
//! (use the value / a clone after dropping the original / a re-boxed clone; parse or check) is run
//! on a thread whose stack size is drawn from the case PRNG. All three must agree exactly: output,
//! every embedded span, number / order / span / content of errors.

use crate::build::{build, set_rec_mode, RecMode, BP, UNROLL_FLOOR};
use crate::gram::{self, GenCfg, G};
use crate::hook;
use crate::norm::{exec, PMode};
use crate::pool::{Acc, Engine, Violation};
use crate::prng::{fold, fold_bytes, Rng};
use crate::tok::Tok;
use crate::val::Outcome;
use chumsky::prelude::*;
use serde::{Deserialize, Serialize};
use serde_json::json;

#[derive(Clone, Debug, PartialEq, Eq, Serialize, Deserialize)]
pub enum Life {
    /// parse through the value as built
    Value,
    /// clone, drop the original, parse through the clone
    CloneDropOriginal,
    /// clone, box the clone again, drop both earlier handles
    Reboxed,
    /// parse twice through the same value (the second result is compared)
    Twice,
}

#[derive(Clone, Debug, Serialize, Deserialize)]
pub struct RecCase {
    pub grammar: G,
    pub inputs: Vec<Vec<u8>>,
    pub life: Life,
    pub stack_kib: usize,
    /// input representation: 0 `&[u8]`, 1 `&str` (1-4-byte characters), 2 `Stream` over a pull iterator,
    /// 3 `IoInput` over a short-reading reader. The unrolling runs on the same kind.
    #[serde(default)]
    pub kind: u8,
    /// the recursive forms run on a thread with this stack (0 = the worker's); the unrolling, which
    /// recurses natively, always runs on the worker's big stack
    #[serde(default)]
    pub small_stack_kib: usize,
}

#[derive(Clone, Debug, Serialize, Deserialize)]
pub struct Replay {
    pub engine: String,
    pub property: String,
    pub seed: u64,
    pub case: u64,
    pub class: String,
    pub grammar_sexpr: String,
    pub inputs_shown: Vec<String>,
    pub spec: RecCase,
    pub expected: Option<Outcome>,
    pub observed: Option<Outcome>,
}

pub struct RecSim;

const TICK_CAP: u64 = 300_000;

/// Outcome + number of user-closure calls (`hook::cb`) of the LAST parse of the lifecycle.
fn run_one_counted(g: &G, syms: &[u8], kind: u8, mode: RecMode, life: &Life, pmode: PMode) -> (Outcome, u64) {
    use crate::sources::{Chunk, Hint, ReaderPolicy, SimIter, SimReader};
    use chumsky::input::{IoInput, Stream};
    use std::rc::Rc;
    macro_rules! go {
        ($I:ty, $mk:expr) => {{
            set_rec_mode(mode);
            let built = std::panic::catch_unwind(std::panic::AssertUnwindSafe(|| build::<$I>(g)));
            set_rec_mode(RecMode::Direct);
            let p: BP<'_, $I> = match built {
                Ok(p) => p,
                Err(_) => return (Outcome::Panicked { msg: hook::take_panic() }, 0),
            };
            hook::begin_op(0, u64::MAX, u64::MAX);
            hook::begin_ticks(TICK_CAP);
            let o = match life {
                Life::Value => exec::<$I, _, _>(&p, || $mk, pmode, 0),
                Life::CloneDropOriginal => {
                    let q = p.clone();
                    drop(p);
                    exec::<$I, _, _>(&q, || $mk, pmode, 0)
                }
                Life::Reboxed => {
                    let q = p.clone();
                    let r = Parser::boxed(q.clone());
                    drop(p);
                    drop(q);
                    exec::<$I, _, _>(&r, || $mk, pmode, 0)
                }
                Life::Twice => {
                    let _ = exec::<$I, _, _>(&p, || $mk, pmode, 0);
                    hook::end_op();
                    hook::begin_op(0, u64::MAX, u64::MAX);
                    hook::begin_ticks(TICK_CAP);
                    exec::<$I, _, _>(&p, || $mk, pmode, 0)
                }
            };
            let (cbs, _, _) = hook::end_op();
            hook::end_ticks();
            (o, cbs)
        }};
    }
    match kind {
        1 => {
            let text: String = syms.iter().map(|x| char::from_sym(*x)).collect();
            go!(&str, &text[..])
        }
        2 => {
            let toks: Rc<Vec<u8>> = Rc::new(syms.iter().map(|x| u8::from_sym(*x)).collect());
            go!(Stream<SimIter<u8>>, Stream::from_iter(SimIter::new(toks.clone(), Hint::Unknown).0))
        }
        3 => {
            let toks: Rc<Vec<u8>> = Rc::new(syms.iter().map(|x| u8::from_sym(*x)).collect());
            go!(IoInput<SimReader>, {
                let mut pol = ReaderPolicy::full();
                pol.chunk = Chunk::Fixed(3);
                IoInput::new(SimReader::new(toks.clone(), pol, Rng::new(5)).0)
            })
        }
        _ => {
            let toks: Vec<u8> = syms.iter().map(|x| u8::from_sym(*x)).collect();
            go!(&[u8], &toks[..])
        }
    }
}

/// Run `f` on a thread with a small stack (the recursive forms: the stack guard has to do its work).
fn on_stack<T: Send>(kib: usize, f: impl FnOnce() -> T + Send) -> T {
    if kib == 0 {
        return f();
    }
    std::thread::scope(|s| std::thread::Builder::new().stack_size(kib << 10).spawn_scoped(s, f).expect("spawn").join().expect("small-stack thread died (harness)"))
}

pub struct Verdict {
    pub class: String,
    pub expected: Outcome,
    pub observed: Outcome,
}

/// Returns (digest, verdict, heavy, harness_problem)
pub fn run_spec(c: &RecCase) -> (u64, Option<Verdict>, bool, Option<String>) {
    let g = c.grammar.clone();
    let inputs = c.inputs.clone();
    let life = c.life.clone();
    let (kind, small) = (c.kind, c.small_stack_kib);
    let stack = c.stack_kib << 10;
    let body = move || {
                let mut d = 0u64;
                for syms in &inputs {
                    let toks: &Vec<u8> = syms;
                    let k = toks.len() + 2;
                    for pmode in [PMode::Parse, PMode::Check] {
                        // the unrolling is the reference; it never touches Recursive or stacker
                        let (u, ucalls) = run_one_counted(&g, toks, kind, RecMode::Unroll(k), &Life::Value, pmode);
                        if let Outcome::Panicked { msg } = &u {
                            if msg.starts_with(hook::BUDGET_MSG) {
                                return (d, None, true, None);
                            }
                            if msg.starts_with("harness") {
                                return (d, None, false, Some(msg.clone()));
                            }
                        }
                        if format!("{:?}", u).contains(UNROLL_FLOOR) {
                            return (d, None, false, Some("unrolling floor reached".into()));
                        }
                        d = fold(d, u.digest());
                        for (name, mode) in [("recursive()", RecMode::Direct), ("declare/define", RecMode::Indirect)] {
                            let (o, ocalls) = {
                                let (g, life) = (&g, &life);
                                on_stack(small, move || run_one_counted(g, toks, kind, mode, life, pmode))
                            };
                            d = fold(d, o.digest());
                            if o != u {
                                let class = if o.is_panic() && !u.is_panic() { "recursive-panics-unrolling-does-not" } else { "differs-from-unrolling" };
                                return (d, Some(Verdict { class: format!("{}:{}:{:?}", class, name, pmode), expected: u, observed: o }), false, None);
                            }
                            if ocalls != ucalls && !o.is_panic() {
                                // same result, but the grammar's own closures ran a different number of times
                                return (d, Some(Verdict { class: format!("differs-from-unrolling(user-closure calls):{}:{:?}:{} vs {}", name, pmode, ucalls, ocalls), expected: u, observed: o }), false, None);
                            }
                        }
                    }
                }
                (d, None, false, None)
    };
    if c.stack_kib == 0 {
        // on the worker thread (64 MiB stack)
        return body();
    }
    let r = std::thread::scope(|s| std::thread::Builder::new().stack_size(stack).spawn_scoped(s, body).expect("spawn").join());
    match r {
        Ok(x) => x,
        Err(_) => (0, None, false, Some(format!("case thread panicked: {}", hook::take_panic()))),
    }
}

pub fn gen_case(seed: u64, idx: u64) -> Option<RecCase> {
    let mut rng = Rng::for_case(seed, "recsim", idx);
    let mut cfg = GenCfg::swarm(&mut rng, true);
    cfg.allow_rec = true;
    cfg.allow_memo = false; // memo keys are node addresses: the unrolling has k nodes where the recursion has one (C11's business)
    cfg.allow_lazy = false;
    cfg.max_depth = cfg.max_depth.max(5);
    cfg.max_nodes = cfg.max_nodes.max(12);
    let mut g = None;
    for _ in 0..30 {
        let cand = gram::generate(&mut rng, &cfg);
        if gram::contains(&cand, &|x| matches!(x, G::Rec(_))) && gram::contains(&cand, &|x| matches!(x, G::RecRef)) {
            g = Some(cand);
            break;
        }
    }
    let g = g?;
    let n = rng.range(1, 3);
    let mut inputs = Vec::new();
    for _ in 0..n {
        let max_len = *rng.pick(&[8usize, 16, 24, 40]);
        inputs.push(gram::gen_input(&g, &mut rng, cfg.nsym, max_len));
    }
    let life = match rng.below(4) {
        0 => Life::Value,
        1 => Life::CloneDropOriginal,
        2 => Life::Reboxed,
        _ => Life::Twice,
    };
    // the unrolled reference recurses natively (no stack guard): keep the stack roomy enough for it,
    // the guarded forms get no benefit from it
    let stack_kib = if rng.chance(1, 8) { *rng.pick(&[1024usize, 2048, 8192]) } else { 0 };
    // drawn after everything else: the input kind, and deep cases (one in 24: a derivation with hundreds
    // of nested self-references; the recursive forms then run on a 128 / 256 KiB stack)
    let kind = if rng.chance(1, 3) { 1 + rng.below(3) as u8 } else { 0 };
    let mut small_stack_kib = 0;
    if rng.chance(1, 24) {
        let fuel = *rng.pick(&[1500i64, 4000]);
        let deep = gram::gen_input_fuel(&g, &mut rng, cfg.nsym, 1500, fuel);
        if deep.len() > 60 {
            inputs = vec![deep];
            small_stack_kib = *rng.pick(&[128usize, 256]);
        }
    }
    let stack_kib = if small_stack_kib > 0 { 0 } else { stack_kib };
    Some(RecCase { grammar: g, inputs, life, stack_kib, kind, small_stack_kib })
}

impl Engine for RecSim {
    fn name(&self) -> &'static str {
        "recsim"
    }
    fn property(&self) -> &'static str {
        "C12"
    }
    fn cases(&self, tier: &str) -> u64 {
        if tier == "thorough" {
            3_000_000
        } else {
            60_000
        }
    }
    fn run_case(&self, seed: u64, idx: u64, tier: &str, acc: &mut Acc) -> u64 {
        acc.inc("evaluations.cases");
        if idx % 25 == 10 {
            // output types other than the generated grammars' value type (see rectypes.rs)
            let mut rng = Rng::for_case(seed, "rectypes", idx);
            acc.inc("cases.output_type_replica");
            let mut d = 0x7e57u64;
            for _ in 0..4 {
                let ty = rng.below(crate::rectypes::N_TYPES as u64) as u8;
                let depth = if rng.chance(1, 6) { rng.range(13, 40) as usize } else { rng.range(0, 12) as usize };
                let damage = if rng.chance(1, 2) { 0 } else { rng.range(1, 3) as u8 };
                let input = crate::rectypes::gen_input(&mut rng, depth, damage);
                let life = rng.pick(&[Life::Value, Life::CloneDropOriginal, Life::Reboxed, Life::Twice]).clone();
                d = fold(d, fold_bytes(ty as u64, &input));
                acc.inc(&format!("replica_runs.output_type.{}", crate::rectypes::TYPE_NAMES[ty as usize]));
                acc.add("evaluations.comparisons_with_unrolling", 4);
                match crate::rectypes::check(ty, &input, &life) {
                    Err(h) => {
                        acc.inc("HARNESS.rectypes_problem");
                        eprintln!("harness: recsim output-type case {}: {}", idx, h);
                        return d;
                    }
                    Ok(Some((class, exp, obs))) => {
                        let shown = String::from_utf8_lossy(&input).to_string();
                        acc.violations.push(Violation {
                            property: "C12".into(),
                            engine: "recsim".into(),
                            seed,
                            case: idx,
                            class: class.clone(),
                            summary: format!("{} output type {} input={:?} lifecycle={:?} unrolled={} recursive={}", class, crate::rectypes::TYPE_NAMES[ty as usize], shown, life, exp, obs),
                            replay: json!({"engine": "recsim", "property": "C12", "seed": seed, "case": idx, "class": class, "rectypes": {"ty": ty, "type_name": crate::rectypes::TYPE_NAMES[ty as usize], "input": shown, "life": life}, "expected": exp, "observed": obs}),
                        });
                        return d;
                    }
                    Ok(None) => {}
                }
            }
            // ... and the once-only definition over the TYPE of the first definition
            for _ in 0..2 {
                let kind = rng.below(crate::rectypes::N_DEF_KINDS as u64) as u8;
                let (via_clone, use_between) = (rng.chance(1, 2), rng.chance(1, 2));
                acc.inc(&format!("replica_runs.define_twice.{}", crate::rectypes::DEF_KIND_NAMES[kind as usize]));
                d = fold(d, (kind as u64) << 2 | (via_clone as u64) << 1 | use_between as u64);
                if let Some((class, exp, obs)) = crate::rectypes::define_twice_check(kind, via_clone, use_between) {
                    acc.violations.push(Violation {
                        property: "C12".into(),
                        engine: "recsim".into(),
                        seed,
                        case: idx,
                        class: class.clone(),
                        summary: format!("{} first definition: {} via_clone={} used_between={} expected={} observed={}", class, crate::rectypes::DEF_KIND_NAMES[kind as usize], via_clone, use_between, exp, obs),
                        replay: json!({"engine": "recsim", "property": "C12", "seed": seed, "case": idx, "class": class, "define_twice": {"kind": kind, "kind_name": crate::rectypes::DEF_KIND_NAMES[kind as usize], "via_clone": via_clone, "use_between": use_between}, "expected": exp, "observed": obs}),
                    });
                    return d;
                }
            }
            acc.distinct("cases", d);
            acc.distinct("nontrivial_cases", d);
            return d;
        }
        if idx % 4 == 3 {
            // token-tree recursion through nested_in
            let c = tree::gen(seed, idx, tier);
            let (d, verdict, harness) = tree::run_case(&c);
            if let Some(h) = harness {
                acc.inc("HARNESS.recsim_tree_problem");
                eprintln!("harness: recsim tree case {}: {}", idx, h);
                return d;
            }
            acc.inc("cases.token_tree(nested_in)");
            acc.add("evaluations.comparisons_with_unrolling", 4);
            acc.max("max.tree_depth", c.depth as u64);
            if c.unroll {
                acc.inc("tree.compared_with_unrolling");
            } else {
                acc.inc("tree.compared_with_generator_expectation");
            }
            if c.memo {
                acc.inc("tree.memoized_recursion");
            }
            acc.distinct("cases", d);
            if c.depth >= 3 {
                acc.distinct("nontrivial_cases", d);
            }
            if let Some(v) = verdict {
                acc.violations.push(Violation {
                    property: "C12".into(),
                    engine: "recsim".into(),
                    seed,
                    case: idx,
                    class: v.class.clone(),
                    summary: format!("{} token-tree case={:?} unrolled/expected={} recursive={}", v.class, c, v.expected, v.observed),
                    replay: json!({"engine": "recsim", "property": "C12", "seed": seed, "case": idx, "class": v.class, "tree": c, "expected": v.expected, "observed": v.observed}),
                });
            } else {
                acc.sample("samples", idx, 6, || json!({"case": idx, "token_tree": c}));
            }
            return d;
        }
        let Some(case) = gen_case(seed, idx) else {
            acc.inc("cases.no_recursive_grammar_generated");
            return 0;
        };
        let (d, verdict, heavy, harness) = run_spec(&case);
        if heavy {
            acc.inc("cases.discarded_reference_too_heavy");
            return d;
        }
        if let Some(h) = harness {
            acc.inc("HARNESS.recsim_problem");
            eprintln!("harness: recsim case {}: {}", idx, h);
            return d;
        }
        let dd = fold(fold_bytes(5, gram::sexpr(&case.grammar).as_bytes()), d);
        acc.distinct("cases", dd);
        acc.add("evaluations.comparisons_with_unrolling", 4 * case.inputs.len() as u64);
        acc.inc(&format!("lifecycle.{:?}", case.life));
        acc.inc(&format!("stack_kib.{}", case.stack_kib));
        acc.inc(&format!("input_kind.{}", ["&[u8]", "&str", "Stream", "IoInput"][case.kind as usize % 4]));
        if case.small_stack_kib > 0 {
            acc.inc("cases.deep_derivation_on_a_small_stack(recursive forms on 128/256 KiB, unrolling on the worker's stack)");
        }
        let maxlen = case.inputs.iter().map(|v| v.len()).max().unwrap_or(0);
        acc.max("max.unroll_depth", maxlen as u64 + 2);
        // non-trivial: some input makes the recursion actually nest (an opener symbol occurs twice)
        if case.inputs.iter().any(|v| v.len() >= 3) {
            acc.distinct("nontrivial_cases", dd);
        }
        if let Some(v) = verdict {
            let rp = Replay {
                engine: "recsim".into(),
                property: "C12".into(),
                seed,
                case: idx,
                class: v.class.clone(),
                grammar_sexpr: gram::sexpr(&case.grammar),
                inputs_shown: case.inputs.iter().map(|i| gram::show_input(i)).collect(),
                spec: case.clone(),
                expected: Some(v.expected.clone()),
                observed: Some(v.observed.clone()),
            };
            acc.violations.push(Violation {
                property: "C12".into(),
                engine: "recsim".into(),
                seed,
                case: idx,
                class: v.class.clone(),
                summary: format!("{} grammar={} inputs={:?} life={:?} unrolled={} recursive={}", v.class, rp.grammar_sexpr, rp.inputs_shown, case.life, v.expected.brief(), v.observed.brief()),
                replay: serde_json::to_value(&rp).unwrap(),
            });
        } else {
            acc.sample("samples", idx, 6, || json!({"case": idx, "grammar": gram::sexpr(&case.grammar), "inputs": case.inputs.iter().map(|i| gram::show_input(i)).collect::<Vec<_>>(), "lifecycle": format!("{:?}", case.life), "stack_kib": case.stack_kib, "unroll_depth": maxlen + 2}));
        }
        dd
    }
}

pub fn replay(rp: &Replay) -> Option<(String, Outcome, Outcome)> {
    let (_, v, _, _) = run_spec(&rp.spec);
    v.map(|v| (v.class, v.expected, v.observed))
}

fn fam(c: &str) -> &str {
    c.split(':').next().unwrap_or(c)
}

pub fn minimise(rp: &Replay) -> Replay {
    let family = fam(&rp.class).to_string();
    let mut best = rp.clone();
    let mut budget = 800i32;
    let mut still = |cand: &Replay| -> Option<Replay> {
        if budget <= 0 {
            return None;
        }
        budget -= 1;
        if !gram::well_scoped(&cand.spec.grammar, false) {
            return None;
        }
        match replay(cand) {
            Some((class, exp, obs)) if fam(&class) == family => {
                let mut c = cand.clone();
                c.class = class;
                c.expected = Some(exp);
                c.observed = Some(obs);
                c.grammar_sexpr = gram::sexpr(&c.spec.grammar);
                c.inputs_shown = c.spec.inputs.iter().map(|i| gram::show_input(i)).collect();
                Some(c)
            }
            _ => None,
        }
    };
    let mut progress = true;
    while progress {
        progress = false;
        // fewer inputs
        let mut i = 0;
        while best.spec.inputs.len() > 1 && i < best.spec.inputs.len() {
            let mut c = best.clone();
            c.spec.inputs.remove(i);
            if let Some(b) = still(&c) {
                best = b;
                progress = true;
            } else {
                i += 1;
            }
        }
        // simpler lifecycle
        if best.spec.life != Life::Value {
            let mut c = best.clone();
            c.spec.life = Life::Value;
            if let Some(b) = still(&c) {
                best = b;
                progress = true;
            }
        }
        // shorter inputs
        for pi in 0..best.spec.inputs.len() {
            let mut j = 0;
            while j < best.spec.inputs[pi].len() {
                let mut c = best.clone();
                c.spec.inputs[pi].remove(j);
                if let Some(b) = still(&c) {
                    best = b;
                    progress = true;
                } else {
                    j += 1;
                }
            }
        }
        // smaller grammar
        let n = gram::count_nodes(&best.spec.grammar);
        for pos in 0..n {
            let cur = best.spec.grammar.clone();
            for mut gnew in crate::srcsim::shrink_at(&cur, pos) {
                gram::fixup(&mut gnew, 8);
                if gram::count_nodes(&gnew) >= gram::count_nodes(&cur) {
                    continue;
                }
                let mut c = best.clone();
                c.spec.grammar = gnew;
                if let Some(b) = still(&c) {
                    best = b;
                    progress = true;
                    break;
                }
            }
        }
    }
    best
}

// ---------------------------------------------------------------------------------------------
// Token trees: recursion that descends into nested inputs (`nested_in`). Input offsets restart at 0
// in every nested input, so anything that identifies "where the recursion is" by offset alone is
// wrong here. Same three builds, same oracle.

pub mod tree {
    use super::*;
    use chumsky::recursive::Recursive;
    use chumsky::Boxed;

    #[derive(Clone, PartialEq)]
    pub enum TT {
        Leaf(u8),
        Group(Vec<TT>),
    }
    impl std::fmt::Debug for TT {
        fn fmt(&self, f: &mut std::fmt::Formatter<'_>) -> std::fmt::Result {
            match self {
                TT::Leaf(s) => write!(f, "L{}", s),
                TT::Group(v) => write!(f, "G[{}]", v.len()),
            }
        }
    }
    impl Drop for TT {
        fn drop(&mut self) {
            // iterative teardown: trees are up to 20 000 levels deep
            if let TT::Group(v) = self {
                let mut stack = std::mem::take(v);
                while let Some(mut t) = stack.pop() {
                    if let TT::Group(v2) = &mut t {
                        stack.append(v2);
                    }
                }
            }
        }
    }

    #[derive(Clone, Debug, PartialEq, Eq, Serialize, Deserialize)]
    pub struct TreeCase {
        pub depth: usize,
        /// leaves before the sub-group at every level (its index in the parent)
        pub before: u8,
        pub after: u8,
        /// alternate the index between levels instead of keeping it constant
        pub vary: bool,
        /// the innermost leaf is one the grammar rejects (error inside the deepest level)
        pub bad_leaf: bool,
        pub memo: bool,
        pub life: Life,
        /// compare with the unrolling (else: with the generator-known expectation only)
        pub unroll: bool,
    }

    type O = (u64, u64);
    type In<'a> = &'a [TT];
    type Er<'a> = extra::Err<Rich<'a, TT>>;
    type BX<'a> = Boxed<'a, 'a, In<'a>, O, Er<'a>>;

    pub fn make_input(c: &TreeCase) -> (Vec<TT>, O) {
        let mut cur = TT::Leaf(if c.bad_leaf { 7 } else { 1 });
        let mut leaves = 1u64;
        for lvl in (0..c.depth).rev() {
            let (b, a) = if c.vary && lvl % 2 == 1 { (c.after, c.before) } else { (c.before, c.after) };
            let mut ch = Vec::with_capacity(b as usize + a as usize + 1);
            for _ in 0..b {
                ch.push(TT::Leaf(2));
            }
            ch.push(cur);
            for _ in 0..a {
                ch.push(TT::Leaf(3));
            }
            leaves += b as u64 + a as u64;
            cur = TT::Group(ch);
        }
        (vec![cur], (leaves, c.depth as u64))
    }

    fn body<'a>(me: BX<'a>, memo: bool) -> BX<'a> {
        let leaf = select_ref! { TT::Leaf(s) if *s < 5 => (1u64, 0u64) };
        let group = me
            .repeated()
            .collect::<Vec<O>>()
            .nested_in(select_ref! { TT::Group(ts) => ts.as_slice() })
            .map(|v: Vec<O>| (v.iter().map(|x| x.0).sum::<u64>(), 1 + v.iter().map(|x| x.1).max().unwrap_or(0)));
        if memo {
            leaf.or(group).memoized().boxed()
        } else {
            leaf.or(group).boxed()
        }
    }

    fn build_tree<'a>(mode: RecMode, memo: bool) -> BX<'a> {
        match mode {
            RecMode::Direct => recursive(|me| body(Parser::boxed(me), memo)).boxed(),
            RecMode::Indirect => {
                let mut r = Recursive::declare();
                let b = body(Parser::boxed(r.clone()), memo);
                r.define(b);
                r.boxed()
            }
            RecMode::Unroll(k) => {
                let mut u: BX<'a> = empty().try_map(|(), span| Err::<O, _>(Rich::custom(span, UNROLL_FLOOR))).boxed();
                for _ in 0..k {
                    u = body(u, memo);
                }
                u
            }
        }
    }

    pub type TOut = (Option<O>, Vec<String>, bool);

    fn run<'a>(p: &BX<'a>, input: &'a [TT], check: bool) -> Result<TOut, String> {
        let r = std::panic::catch_unwind(std::panic::AssertUnwindSafe(|| {
            if check {
                let (o, e) = p.check(input).into_output_errors();
                (None, e.iter().map(|e| format!("{:?}@{:?}", e.reason(), e.span())).collect::<Vec<_>>(), o.is_some())
            } else {
                let (o, e) = p.parse(input).into_output_errors();
                let ok = o.is_some();
                (o, e.iter().map(|e| format!("{:?}@{:?}", e.reason(), e.span())).collect::<Vec<_>>(), ok)
            }
        }));
        r.map_err(|_| hook::take_panic())
    }

    fn with_life<'a>(p: BX<'a>, life: &Life, input: &'a [TT], check: bool) -> Result<TOut, String> {
        match life {
            Life::Value => run(&p, input, check),
            Life::CloneDropOriginal => {
                let q = p.clone();
                drop(p);
                run(&q, input, check)
            }
            Life::Reboxed => {
                let q = p.clone();
                let r = Parser::boxed(q.clone());
                drop(p);
                drop(q);
                run(&r, input, check)
            }
            Life::Twice => {
                let _ = run(&p, input, check);
                run(&p, input, check)
            }
        }
    }

    pub struct TreeVerdict {
        pub class: String,
        pub expected: String,
        pub observed: String,
    }

    pub fn run_case(c: &TreeCase) -> (u64, Option<TreeVerdict>, Option<String>) {
        let (input, want) = make_input(c);
        let input = &input[..];
        let mut d = fold(c.depth as u64, (c.before as u64) << 8 | c.after as u64);
        for check in [false, true] {
            let reference: Result<TOut, String> = if c.unroll {
                let u = build_tree(RecMode::Unroll(c.depth + 2), c.memo);
                run(&u, input, check)
            } else if c.bad_leaf {
                // beyond the unrolling bound only acceptance is known: rejected, no output, >= 1 error
                Ok((None, vec!["<some error>".into()], false))
            } else {
                Ok((if check { None } else { Some(want) }, vec![], true))
            };
            if let Ok(r) = &reference {
                if r.1.iter().any(|e| e.contains(UNROLL_FLOOR)) {
                    return (d, None, Some("unrolling floor reached".into()));
                }
                if c.unroll && !c.bad_leaf && (r.2 != true || (!check && r.0 != Some(want))) {
                    return (d, None, Some(format!("unrolled reference disagrees with the generator expectation: {:?} vs {:?}", r, want)));
                }
            } else if let Err(e) = &reference {
                return (d, None, Some(format!("unrolled reference panicked: {}", e)));
            }
            let reference = reference.unwrap();
            for (name, mode) in [("recursive()", RecMode::Direct), ("declare/define", RecMode::Indirect)] {
                let p = build_tree(mode, c.memo);
                let got = with_life(p, &c.life, input, check);
                let same = match &got {
                    Ok(g) => {
                        if c.unroll {
                            *g == reference
                        } else if c.bad_leaf {
                            g.0.is_none() && !g.1.is_empty() && !g.2
                        } else {
                            *g == reference
                        }
                    }
                    Err(_) => false,
                };
                d = fold(d, fold_bytes(1, format!("{:?}", got).as_bytes()));
                if !same {
                    let class = if got.is_err() { "tree-recursive-panics" } else { "tree-differs-from-unrolling" };
                    return (d, Some(TreeVerdict { class: format!("{}:{}:{}", class, name, if check { "check" } else { "parse" }), expected: format!("{:?}", reference), observed: format!("{:?}", got) }), None);
                }
            }
        }
        (d, None, None)
    }

    pub fn gen(seed: u64, idx: u64, tier: &str) -> TreeCase {
        let mut rng = Rng::for_case(seed, "recsim-tree", idx);
        let k = idx / 4;
        let depth = if k <= 48 {
            k as usize
        } else if rng.chance(3, 4) {
            rng.log_range(1, 400) as usize
        } else {
            rng.log_range(400, if tier == "thorough" { 20_000 } else { 6_000 }) as usize
        };
        let unroll = depth <= 1500;
        TreeCase {
            depth,
            before: rng.below(3) as u8,
            after: rng.below(3) as u8,
            vary: rng.chance(1, 4),
            bad_leaf: rng.chance(1, 4),
            memo: rng.chance(1, 4),
            life: match rng.below(4) {
                0 => Life::Value,
                1 => Life::CloneDropOriginal,
                2 => Life::Reboxed,
                _ => Life::Twice,
            },
            unroll,
        }
    }
}
