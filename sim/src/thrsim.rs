//! C13 (concurrent half) — a `Sync` parser shared between threads gives each thread the same
//! results as sequential use.
//!
//! 2–8 client tasks share ONE parser value (`&dyn Parser + Send + Sync` built from leaked
//! sub-parsers, an `Arc<dyn Parser + Send + Sync>` zoo grammar, or a `static Cache`). The clients are
//! real OS threads that run one at a time; the only places a client can lose the CPU are the points
//! where the parser *calls out* — every user closure of the grammar and every call into the
//! simulated source — and there my own scheduler (driven by the case PRNG, recording every choice)
//! decides who runs next. One recorded choice list = one exactly repeatable execution.
//!
//! Oracle: every operation returns what a brand-new parser returns for the same input when used
//! alone (computed beforehand, sequentially, with scheduling off).

use crate::build::{build_sync, Arena, Ex, SP};
use crate::gram::{self, GenCfg, G};
use crate::histsim::{char_text, MODES};
use crate::hook;
use crate::norm::{exec, PMode};
use crate::pool::{Acc, Engine, Violation};
use crate::prng::{fold, fold_bytes, Rng};
use crate::sources::{Hint, ReaderPolicy, SimIter, SimReader};
use crate::tok::Tok;
use crate::val::{Outcome, Val};
use crate::zoo::{self, ExS};
use chumsky::cache::{Cache, Cached};
use chumsky::input::{IoInput, Stream, ValueInput};
use chumsky::prelude::*;
use serde::{Deserialize, Serialize};
use serde_json::json;
use std::cell::{Cell, RefCell};
use std::collections::BTreeMap;
use std::rc::Rc;
use std::sync::{mpsc, Arc, Condvar, LazyLock, Mutex};

// ---------------------------------------------------------------------------------------------
// Baton scheduler: real OS threads, released one at a time
//
// Every client is a real `std::thread` (so thread-locals, `stacker`'s per-thread stack limit and
// anything else that is legitimately per-thread behave as in production), but at most one of them
// runs at any moment: a client only proceeds while it holds the baton, and gives it back at every
// scheduling point. The controller (the worker thread that runs the case) decides who gets it next.
// What is *not* real is the choice of who runs — that is the recorded decision list.

struct BatonState {
    turn: Option<usize>,
    finished: Vec<bool>,
    failed: Option<String>,
}

pub struct Baton {
    m: Mutex<BatonState>,
    controller: Condvar,
    clients: Vec<Condvar>,
}

impl Baton {
    fn new(k: usize) -> Baton {
        Baton { m: Mutex::new(BatonState { turn: None, finished: vec![false; k], failed: None }), controller: Condvar::new(), clients: (0..k).map(|_| Condvar::new()).collect() }
    }
    /// controller: let client `id` run until it yields or finishes
    fn run(&self, id: usize) {
        let mut g = self.m.lock().unwrap();
        g.turn = Some(id);
        self.clients[id].notify_one();
        while g.turn.is_some() {
            g = self.controller.wait(g).unwrap();
        }
    }
    fn wait_turn(&self, id: usize) {
        let mut g = self.m.lock().unwrap();
        while g.turn != Some(id) {
            g = self.clients[id].wait(g).unwrap();
        }
    }
    fn yield_(&self, id: usize) {
        let mut g = self.m.lock().unwrap();
        g.turn = None;
        self.controller.notify_one();
        while g.turn != Some(id) {
            g = self.clients[id].wait(g).unwrap();
        }
    }
    fn finish(&self, id: usize, failed: Option<String>) {
        let mut g = self.m.lock().unwrap();
        g.finished[id] = true;
        if failed.is_some() {
            g.failed = failed;
        }
        g.turn = None;
        self.controller.notify_one();
    }
    fn unfinished(&self) -> Vec<usize> {
        let g = self.m.lock().unwrap();
        g.finished.iter().enumerate().filter(|(_, f)| !**f).map(|(i, _)| i).collect()
    }
}

thread_local! {
    static BATON: RefCell<Option<(Arc<Baton>, usize)>> = const { RefCell::new(None) };
    static YIELDS: Cell<u64> = const { Cell::new(0) };
}

/// Called from `hook::cb()` / `hook::src_event()` when yielding is on (client threads only).
pub fn sched_point() {
    let b = BATON.with(|b| b.borrow().clone());
    if let Some((baton, id)) = b {
        YIELDS.with(|c| c.set(c.get() + 1));
        baton.yield_(id);
    }
}

type Job = Box<dyn FnOnce() + Send>;

/// Client threads are created once per worker and reused across executions and cases (thread
/// creation would dominate otherwise; reuse is also what a real thread pool does, so per-thread
/// state inside the library is carried from one parse to the next exactly as in production).
pub struct ClientPool {
    txs: Vec<mpsc::Sender<Job>>,
}

impl ClientPool {
    fn new(k: usize) -> ClientPool {
        let mut txs = Vec::new();
        for i in 0..k {
            let (tx, rx) = mpsc::channel::<Job>();
            std::thread::Builder::new()
                .name(format!("client{}", i))
                .stack_size(8 << 20)
                .spawn(move || {
                    hook::install_panic_hook();
                    for job in rx {
                        job();
                    }
                })
                .expect("spawn client thread");
            txs.push(tx);
        }
        ClientPool { txs }
    }
}

thread_local! {
    static POOL: ClientPool = ClientPool::new(8);
}

// ---------------------------------------------------------------------------------------------
// Scheduler: PRNG-driven, recording; or replaying a recorded choice list

#[derive(Clone, Debug, PartialEq, Eq, Serialize, Deserialize)]
pub enum SPlan {
    /// uniform over runnable clients at every decision
    Random { seed: u64 },
    /// keep running the current client with probability (den-1)/den
    Sticky { seed: u64, den: u64 },
    RoundRobin,
    /// PCT-style: random priorities, `depth` priority change points within `est_steps` decisions
    Pct { seed: u64, depth: u32, est_steps: u64 },
    /// each client runs to completion in order (the sequential baseline inside the simulator)
    Sequential,
    /// replay a recorded choice list; a choice that is not runnable falls back to the lowest runnable id
    Replay { trace: Vec<u32> },
}

struct Sched<'p> {
    plan: &'p SPlan,
    rng: Rng,
    step: u64,
    prio: BTreeMap<usize, u64>,
    change_at: Vec<u64>,
    rr_last: Option<usize>,
    diverged: bool,
}

impl<'p> Sched<'p> {
    fn new(plan: &'p SPlan) -> Self {
        let mut s = Sched { plan, rng: Rng::new(1), step: 0, prio: BTreeMap::new(), change_at: vec![], rr_last: None, diverged: false };
        match plan {
            SPlan::Random { seed } | SPlan::Sticky { seed, .. } => s.rng = Rng::new(*seed),
            SPlan::Pct { seed, depth, est_steps } => {
                s.rng = Rng::new(*seed);
                for _ in 0..*depth {
                    let at = s.rng.below((*est_steps).max(1));
                    s.change_at.push(at);
                }
            }
            _ => {}
        }
        s
    }

    fn next(&mut self, ids: &[usize], cur: Option<usize>) -> usize {
        let cur_runnable = cur.map(|c| ids.contains(&c)).unwrap_or(false);
        let step = self.step;
        self.step += 1;
        match self.plan {
            SPlan::Random { .. } => ids[self.rng.usize(ids.len())],
            SPlan::Sticky { den, .. } => {
                if cur_runnable && !self.rng.chance(1, *den) {
                    cur.unwrap()
                } else {
                    ids[self.rng.usize(ids.len())]
                }
            }
            SPlan::RoundRobin => {
                let next = match self.rr_last {
                    Some(l) => ids.iter().copied().find(|i| *i > l).unwrap_or(ids[0]),
                    None => ids[0],
                };
                self.rr_last = Some(next);
                next
            }
            SPlan::Pct { .. } => {
                for i in ids {
                    if !self.prio.contains_key(i) {
                        let p = 1000 + self.rng.below(1_000_000);
                        self.prio.insert(*i, p);
                    }
                }
                if let Some(pos) = self.change_at.iter().position(|s| *s == step) {
                    if let Some(c) = cur {
                        // demote the running client below everybody
                        self.prio.insert(c, pos as u64);
                    }
                }
                *ids.iter().max_by_key(|i| self.prio[*i]).unwrap()
            }
            SPlan::Sequential => {
                if cur_runnable {
                    cur.unwrap()
                } else {
                    ids[0]
                }
            }
            SPlan::Replay { trace } => match trace.get(step as usize) {
                Some(t) if ids.contains(&(*t as usize)) => *t as usize,
                Some(_) => {
                    self.diverged = true;
                    ids[0]
                }
                None => {
                    if cur_runnable {
                        cur.unwrap()
                    } else {
                        ids[0]
                    }
                }
            },
        }
    }
}

// ---------------------------------------------------------------------------------------------
// Workload

#[derive(Clone, Debug, PartialEq, Eq, Serialize, Deserialize)]
pub struct COp {
    pub inp: usize,
    pub mode: PMode,
    /// k > 0: inject a panic at the k-th user callback of this operation (an aborted parse while
    /// other clients are in the middle of theirs)
    pub abort: u64,
}

#[derive(Clone, Copy, Debug, PartialEq, Eq, Serialize, Deserialize)]
pub enum SKind {
    Slice,
    Stream,
    Io,
}

#[derive(Clone, Debug, PartialEq, Eq, Serialize, Deserialize)]
pub enum Subject {
    /// generated grammar built as one shared `&dyn Parser + Send + Sync`
    SyncDyn { grammar: G, kind: SKind },
    /// zoo grammar behind `Arc<dyn Parser + Send + Sync>`
    ZooArc { z: usize },
    /// zoo grammar behind a process-wide `static Cache` (shared by every case and worker thread)
    ZooStaticCache { z: usize },
}

#[derive(Clone, Debug, Serialize, Deserialize)]
pub struct ThrCase {
    pub subject: Subject,
    pub pool_syms: Vec<Vec<u8>>,
    pub pool_text: Vec<String>,
    pub clients: Vec<Vec<COp>>,
    pub reader_seed: u64,
    /// the shared parser is constructed on a brand-new helper thread (and only used elsewhere)
    #[serde(default)]
    pub built_on_helper: bool,
}

type OpFn = Arc<dyn Fn(usize, PMode, u64) -> (Outcome, u64, bool) + Send + Sync>;

fn state_seed(inp: usize) -> u64 {
    0x71 + inp as u64 * 5
}

fn guarded<'a, I, P>(p: &P, mk: impl FnOnce() -> I, mode: PMode, inp: usize, abort: u64) -> (Outcome, u64, bool)
where
    I: Input<'a>,
    I::Token: Tok,
    I::Span: crate::tok::SpanX,
    P: Parser<'a, I, Val, Ex<'a, I>>,
{
    hook::begin_op(abort, 5_000_000, 50_000_000);
    hook::begin_ticks(20_000_000);
    let o = exec::<I, P, _>(p, mk, mode, state_seed(inp));
    let (cbs, _, fired) = hook::end_op();
    let t = hook::end_ticks();
    MAX_TICKS.with(|m| m.set(m.get().max(t)));
    (o, cbs, fired)
}

thread_local! {
    /// the largest number of inspector ticks (tokens fetched, checkpoints, rewinds) of one operation
    /// since the last reset: how heavy the references of a case were
    static MAX_TICKS: std::cell::Cell<u64> = const { std::cell::Cell::new(0) };
}
/// Cases with a long input in their pool are only run under the scheduler if no reference operation
/// needed more than this many ticks (every tick is a scheduling point; a legal super-linear grammar
/// on a 700-token input would otherwise take minutes per execution).
const LONG_TICK_CAP: u64 = 8_000;

struct ZooC<const Z: usize>;
type ZArc<'s> = Arc<dyn Parser<'s, &'s str, Val, ExS<'s>> + Send + Sync + 's>;

fn zoo_arc<'s>(z: usize) -> ZArc<'s> {
    match z {
        0 => Arc::new(zoo::memo()),
        1 => Arc::new(zoo::pratt()),
        2 => Arc::new(zoo::rx()),
        3 => Arc::new(zoo::valid()),
        4 => Arc::new(zoo::rx2()),
        8 => Arc::new(zoo::empty_err::valid()),
        9 => Arc::new(zoo::empty_err::memo()),
        10 => Arc::new(zoo::cheap_err::valid()),
        11 => Arc::new(zoo::cheap_err::memo()),
        12 => Arc::new(zoo::simple_err::valid()),
        13 => Arc::new(zoo::simple_err::memo()),
        _ => panic!("harness: zoo grammar {} is not Sync", z),
    }
}

impl<const Z: usize> Cached for ZooC<Z> {
    type Parser<'s> = ZArc<'s>;
    fn make_parser<'s>(self) -> ZArc<'s> {
        zoo_arc(Z)
    }
}

static ZC0: LazyLock<Cache<ZooC<0>>> = LazyLock::new(|| Cache::new(ZooC::<0>));
static ZC1: LazyLock<Cache<ZooC<1>>> = LazyLock::new(|| Cache::new(ZooC::<1>));
static ZC2: LazyLock<Cache<ZooC<2>>> = LazyLock::new(|| Cache::new(ZooC::<2>));
static ZC3: LazyLock<Cache<ZooC<3>>> = LazyLock::new(|| Cache::new(ZooC::<3>));
static ZC4: LazyLock<Cache<ZooC<4>>> = LazyLock::new(|| Cache::new(ZooC::<4>));
static ZC8: LazyLock<Cache<ZooC<8>>> = LazyLock::new(|| Cache::new(ZooC::<8>));
static ZC9: LazyLock<Cache<ZooC<9>>> = LazyLock::new(|| Cache::new(ZooC::<9>));
static ZC10: LazyLock<Cache<ZooC<10>>> = LazyLock::new(|| Cache::new(ZooC::<10>));
static ZC11: LazyLock<Cache<ZooC<11>>> = LazyLock::new(|| Cache::new(ZooC::<11>));
static ZC12: LazyLock<Cache<ZooC<12>>> = LazyLock::new(|| Cache::new(ZooC::<12>));
static ZC13: LazyLock<Cache<ZooC<13>>> = LazyLock::new(|| Cache::new(ZooC::<13>));

fn static_cache_get<'s>(z: usize) -> &'s ZArc<'s> {
    match z {
        0 => ZC0.get(),
        1 => ZC1.get(),
        2 => ZC2.get(),
        3 => ZC3.get(),
        4 => ZC4.get(),
        8 => ZC8.get(),
        9 => ZC9.get(),
        10 => ZC10.get(),
        11 => ZC11.get(),
        12 => ZC12.get(),
        13 => ZC13.get(),
        _ => panic!("harness: zoo grammar {} is not Sync", z),
    }
}

/// Owns everything the shared parser borrows; dropped after the last execution of the case.
pub struct Built {
    pub shared_op: OpFn,
    pub fresh_op: OpFn,
    _keep: Vec<Box<dyn std::any::Any>>,
}

fn sync_ops<I>(g: &G, mk: Arc<dyn Fn(usize) -> I + Send + Sync>) -> Built
where
    I: ValueInput<'static> + 'static,
    I::Token: Tok,
    I::Span: crate::tok::SpanX,
{
    let arena = Box::new(Arena::default());
    // SAFETY: the arena outlives every use of the parser: `Built` keeps it alive and is dropped by
    // the engine only after the last execution of the case has finished.
    let arena_ref: &'static Arena = unsafe { &*(&*arena as *const Arena) };
    let p: SP<'static, I> = build_sync::<I>(g, arena_ref);
    let mk2 = mk.clone();
    let shared_op: OpFn = Arc::new(move |inp, mode, abort| guarded::<I, _>(&p, || mk2(inp), mode, inp, abort));
    let g2 = g.clone();
    let fresh_op: OpFn = Arc::new(move |inp, mode, abort| {
        let a = Arena::default();
        // SAFETY: the parser built in `a` is used and dropped inside this call, before `a`.
        let ar: &'static Arena = unsafe { &*(&a as *const Arena) };
        let q: SP<'static, I> = build_sync::<I>(&g2, ar);
        let r = guarded::<I, _>(&q, || mk(inp), mode, inp, abort);
        drop(a);
        r
    });
    Built { shared_op, fresh_op, _keep: vec![arena] }
}

pub fn build_case(c: &ThrCase) -> Built {
    match &c.subject {
        Subject::SyncDyn { grammar, kind } => {
            let toks: Vec<Vec<u8>> = c.pool_syms.iter().map(|v| v.iter().map(|s| u8::from_sym(*s)).collect()).collect();
            match kind {
                SKind::Slice => {
                    let owned: Box<Vec<Vec<u8>>> = Box::new(toks);
                    // SAFETY: `Built` keeps the pool alive for as long as the closures exist.
                    let pool: &'static Vec<Vec<u8>> = unsafe { &*(&*owned as *const Vec<Vec<u8>>) };
                    let mut b = sync_ops::<&'static [u8]>(grammar, Arc::new(move |i| &pool[i][..]));
                    b._keep.push(owned);
                    b
                }
                SKind::Stream => {
                    let pool = Arc::new(toks);
                    sync_ops::<Stream<SimIter<u8>>>(grammar, Arc::new(move |i| Stream::from_iter(SimIter::new(Rc::new(pool[i].clone()), Hint::Unknown).0)))
                }
                SKind::Io => {
                    let pool = Arc::new(toks);
                    let rs = c.reader_seed;
                    sync_ops::<IoInput<SimReader>>(
                        grammar,
                        Arc::new(move |i| {
                            let mut r = Rng::new(rs ^ (i as u64).wrapping_mul(0x9E37));
                            let pol = ReaderPolicy::legal(&mut r, pool[i].len(), &[]);
                            IoInput::new(SimReader::new(Rc::new(pool[i].clone()), pol, r).0)
                        }),
                    )
                }
            }
        }
        Subject::ZooArc { z } => {
            let z = *z;
            let texts: Box<Vec<String>> = Box::new(c.pool_text.clone());
            // SAFETY: kept alive by `Built`.
            let pool: &'static Vec<String> = unsafe { &*(&*texts as *const Vec<String>) };
            let shared: ZArc<'static> = if c.built_on_helper {
                // built elsewhere, used here: a parser value must not care which thread constructed it
                std::thread::spawn(move || zoo_arc(z)).join().expect("helper thread")
            } else {
                zoo_arc(z)
            };
            let shared_op: OpFn = Arc::new(move |inp, mode, abort| guarded::<&'static str, _>(&&*shared, || &pool[inp][..], mode, inp, abort));
            let fresh_op: OpFn = Arc::new(move |inp, mode, abort| {
                let q: ZArc<'static> = zoo_arc(z);
                guarded::<&'static str, _>(&&*q, || &pool[inp][..], mode, inp, abort)
            });
            Built { shared_op, fresh_op, _keep: vec![texts] }
        }
        Subject::ZooStaticCache { z } => {
            let z = *z;
            let texts = Arc::new(c.pool_text.clone());
            let t2 = texts.clone();
            let shared_op: OpFn = Arc::new(move |inp, mode, abort| {
                // a short-lived copy of the input: the static parser is handed out at *its* lifetime
                let short: String = texts[inp].clone();
                let p = static_cache_get(z);
                let r = guarded::<&str, _>(&&**p, || &short[..], mode, inp, abort);
                drop(short);
                r
            });
            let fresh_op: OpFn = Arc::new(move |inp, mode, abort| {
                let short: String = t2[inp].clone();
                let q = zoo_arc(z);
                guarded::<&str, _>(&&*q, || &short[..], mode, inp, abort)
            });
            Built { shared_op, fresh_op, _keep: vec![] }
        }
    }
}

pub type RefKey = (usize, u8, u64);
fn mode_ix(m: PMode) -> u8 {
    MODES.iter().position(|x| *x == m).unwrap() as u8
}

#[derive(Clone, Debug)]
pub struct ExecRecord {
    pub results: Vec<(usize, usize, Outcome, bool)>,
    pub trace: Vec<u32>,
    pub midop_switches: u64,
    pub decisions: u64,
    pub yields: u64,
}

/// Run one execution per plan: all clients of `clients` share `shared_op` under the scheduler.
pub fn explore(shared_op: &OpFn, clients: &[Vec<COp>], plans: &[SPlan]) -> (Vec<ExecRecord>, bool) {
    let k = clients.len();
    assert!(k <= 8, "harness: at most 8 clients");
    let mut out = Vec::new();
    let mut diverged = false;
    for plan in plans {
        let baton = Arc::new(Baton::new(k));
        let sink: Arc<Mutex<Vec<(usize, usize, Outcome, bool)>>> = Arc::new(Mutex::new(Vec::new()));
        let yields: Arc<Mutex<u64>> = Arc::new(Mutex::new(0));
        POOL.with(|pool| {
            for (ci, ops) in clients.iter().enumerate() {
                let ops = ops.clone();
                let op = shared_op.clone();
                let sink = sink.clone();
                let yields = yields.clone();
                let baton = baton.clone();
                let job: Job = Box::new(move || {
                    BATON.with(|b| *b.borrow_mut() = Some((baton.clone(), ci)));
                    YIELDS.with(|c| c.set(0));
                    baton.wait_turn(ci);
                    hook::set_yield(true);
                    let r = std::panic::catch_unwind(std::panic::AssertUnwindSafe(|| {
                        for (k, o) in ops.iter().enumerate() {
                            let (out, _cbs, fired) = op(o.inp, o.mode, o.abort);
                            sink.lock().unwrap().push((ci, k, out, fired));
                        }
                    }));
                    hook::set_yield(false);
                    *yields.lock().unwrap() += YIELDS.with(|c| c.get());
                    BATON.with(|b| *b.borrow_mut() = None);
                    baton.finish(ci, r.err().map(|_| hook::take_panic()));
                });
                pool.txs[ci].send(job).expect("client thread gone (harness)");
            }
        });
        let mut sched = Sched::new(plan);
        let mut trace: Vec<u32> = Vec::new();
        let mut midop = 0u64;
        let mut cur: Option<usize> = None;
        loop {
            let ids = baton.unfinished();
            if ids.is_empty() {
                break;
            }
            let choice = sched.next(&ids, cur);
            if let Some(c) = cur {
                // a client that is still unfinished when another one is chosen was pre-empted at a
                // call-out, i.e. in the middle of a parse (clients only ever stop inside operations)
                if c != choice && ids.contains(&c) {
                    midop += 1;
                }
            }
            trace.push(choice as u32);
            baton.run(choice);
            cur = Some(choice);
            if trace.len() > 20_000_000 {
                panic!("harness: runaway execution");
            }
        }
        if let Some(f) = baton.m.lock().unwrap().failed.clone() {
            panic!("harness: client job panicked outside a guarded parse: {}", f);
        }
        diverged |= sched.diverged;
        let mut results = sink.lock().unwrap().clone();
        results.sort_by_key(|r| (r.0, r.1));
        let decisions = trace.len() as u64;
        let y = *yields.lock().unwrap();
        out.push(ExecRecord { results, trace, midop_switches: midop, decisions, yields: y });
    }
    (out, diverged)
}

pub fn references(fresh_op: &OpFn, clients: &[Vec<COp>]) -> BTreeMap<RefKey, (Outcome, u64)> {
    let mut m = BTreeMap::new();
    for c in clients {
        for o in c {
            let k = (o.inp, mode_ix(o.mode), o.abort);
            if !m.contains_key(&k) {
                let (out, cbs, _) = fresh_op(o.inp, o.mode, o.abort);
                m.insert(k, (out, cbs));
            }
        }
    }
    m
}

fn is_heavy(o: &Outcome) -> bool {
    matches!(o, Outcome::Panicked { msg } if msg.starts_with(hook::BUDGET_MSG))
}

#[derive(Debug, Clone)]
pub struct Mismatch {
    pub class: String,
    pub client: usize,
    pub op: usize,
    pub expected: Outcome,
    pub observed: Outcome,
}

pub fn judge(refs: &BTreeMap<RefKey, (Outcome, u64)>, clients: &[Vec<COp>], rec: &ExecRecord) -> Option<Mismatch> {
    let total: usize = clients.iter().map(|c| c.len()).sum();
    if rec.results.len() != total {
        return Some(Mismatch {
            class: "lost-operation".into(),
            client: 0,
            op: 0,
            expected: Outcome::Panicked { msg: format!("{} operations", total) },
            observed: Outcome::Panicked { msg: format!("{} results", rec.results.len()) },
        });
    }
    for (ci, k, out, _) in &rec.results {
        let o = &clients[*ci][*k];
        let (exp, _) = &refs[&(o.inp, mode_ix(o.mode), o.abort)];
        if exp != out {
            let class = if out.is_panic() && !exp.is_panic() { "concurrent-panic" } else { "concurrent-mismatch" };
            return Some(Mismatch { class: class.into(), client: *ci, op: *k, expected: exp.clone(), observed: out.clone() });
        }
    }
    None
}

// ---------------------------------------------------------------------------------------------
// Engine

pub struct ThrSim;

#[derive(Clone, Debug, Serialize, Deserialize)]
pub struct Replay {
    pub engine: String,
    pub property: String,
    pub seed: u64,
    pub case: u64,
    pub class: String,
    pub subject_shown: String,
    pub pool_shown: Vec<String>,
    pub spec: ThrCase,
    /// the schedules executed in order on the same client threads, the failing one last; each is
    /// the client index chosen at every scheduling decision
    pub schedules: Vec<Vec<u32>>,
    pub plan_kind: String,
    pub failing: Option<(usize, usize)>,
    pub expected: Option<Outcome>,
    pub observed: Option<Outcome>,
}

fn subject_shown(s: &Subject) -> String {
    match s {
        Subject::SyncDyn { grammar, kind } => format!("shared &dyn Parser+Send+Sync [{:?}] {}", kind, gram::sexpr(grammar)),
        Subject::ZooArc { z } => format!("Arc<dyn Parser+Send+Sync> zoo::{}", zoo::ZOO_NAMES[*z]),
        Subject::ZooStaticCache { z } => format!("static Cache zoo::{}", zoo::ZOO_NAMES[*z]),
    }
}

fn pool_shown(c: &ThrCase) -> Vec<String> {
    match &c.subject {
        Subject::SyncDyn { .. } => c.pool_syms.iter().map(|v| gram::show_input(v)).collect(),
        _ => c.pool_text.clone(),
    }
}

pub fn gen_case(seed: u64, idx: u64) -> (ThrCase, Rng) {
    let mut rng = Rng::for_case(seed, "thrsim", idx);
    let reader_seed = rng.next_u64();
    let pick = rng.below(10);
    let (subject, pool_syms, pool_text, npool) = if pick < 3 {
        let z = *rng.pick(&zoo::ZOO_SYNC_IDS);
        let all = zoo::pool(z);
        let n = rng.range(2, 5.min(all.len() as u64)) as usize;
        let texts: Vec<String> = (0..n).map(|_| all[rng.usize(all.len())].to_string()).collect();
        let s = if pick == 0 { Subject::ZooStaticCache { z } } else { Subject::ZooArc { z } };
        (s, vec![], texts, n)
    } else {
        let mut gcfg = GenCfg::swarm(&mut rng, true);
        gcfg.allow_rec = false; // Recursive is an Rc: not Sync
        gcfg.allow_lazy = false;
        gcfg.allow_memo = rng.chance(1, 2);
        gcfg.allow_state = rng.chance(1, 2);
        // many leaves should call out: filters / selects / customs are where a switch can land
        let mut g = gram::generate(&mut rng, &gcfg);
        gram::strip_for_sync(&mut g);
        gram::fixup(&mut g, gcfg.nsym);
        let n = rng.range(2, 4) as usize;
        let mut pool = Vec::new();
        for _ in 0..n {
            let max_len = *rng.pick(&[6usize, 12, 24]);
            pool.push(gram::gen_input(&g, &mut rng, gcfg.nsym, max_len));
        }
        let kind = match pick {
            3 | 4 => SKind::Stream,
            5 => SKind::Io,
            _ => SKind::Slice,
        };
        // source-backed inputs: one case in eight also has a LONG input in its pool (more than one
        // 512-token batch of a stream), so that clients are inside refills of very different sizes at
        // the same time. Only kept if the grammar turns out to be cheap on it (run_case: LONG_TICK_CAP),
        // with three clients and at most two operations each: every token is a scheduling point.
        let mut n = n;
        if pick >= 3 && rng.chance(1, 8) {
            let len = rng.range(520, 700) as usize;
            let base: Vec<u8> = if pool[0].is_empty() { vec![0, 1] } else { pool[0].clone() };
            let long: Vec<u8> = base.iter().cycle().take(len).copied().collect();
            pool.push(long);
            n += 1;
        }
        (Subject::SyncDyn { grammar: g, kind }, pool, vec![], n)
    };
    let has_long = pool_syms.iter().any(|p| p.len() >= 512);
    let k = if has_long { 3 } else { *rng.pick(&[2usize, 2, 3, 3, 4, 8]) };
    let mut clients = Vec::new();
    let fav = rng.usize(npool);
    for _ in 0..k {
        let nops = rng.range(1, if k == 8 || has_long { 2 } else { 4 }) as usize;
        let mut v = Vec::new();
        for _ in 0..nops {
            let inp = if rng.chance(1, 3) { fav } else { rng.usize(npool) };
            let mode = *rng.pick(&[PMode::Parse, PMode::Parse, PMode::Check, PMode::ParseState, PMode::CheckState]);
            v.push(COp { inp, mode, abort: 0 });
        }
        clients.push(v);
    }
    let built_on_helper = rng.chance(1, 2);
    (ThrCase { subject, pool_syms, pool_text, clients, reader_seed, built_on_helper }, rng)
}

fn trace_switch_digest(t: &[u32]) -> u64 {
    let mut h = 5u64;
    let mut last = u32::MAX;
    for x in t {
        if *x != last {
            h = fold(h, *x as u64);
            last = *x;
        }
    }
    h
}

fn plan_name(p: &SPlan) -> &'static str {
    match p {
        SPlan::Random { .. } => "random",
        SPlan::Sticky { .. } => "sticky",
        SPlan::RoundRobin => "round_robin",
        SPlan::Pct { .. } => "pct",
        SPlan::Sequential => "sequential",
        SPlan::Replay { .. } => "replay",
    }
}

impl Engine for ThrSim {
    fn name(&self) -> &'static str {
        "thrsim"
    }
    fn property(&self) -> &'static str {
        "C13"
    }
    fn cases(&self, tier: &str) -> u64 {
        if tier == "thorough" {
            200_000
        } else {
            4_000
        }
    }
    fn stack_bytes(&self) -> usize {
        32 << 20
    }
    fn confirm_on_fresh_thread(&self) -> bool {
        true
    }
    fn run_case(&self, seed: u64, idx: u64, tier: &str, acc: &mut Acc) -> u64 {
        acc.inc("evaluations.cases");
        let (mut case, mut rng) = gen_case(seed, idx);
        let built = build_case(&case);
        // un-aborted references first (they also give callback counts for placing aborts)
        MAX_TICKS.with(|m| m.set(0));
        let refs0 = references(&built.fresh_op, &case.clients);
        if refs0.values().any(|(o, _)| is_heavy(o)) {
            acc.inc("cases.discarded_reference_too_heavy");
            return 0;
        }
        if case.pool_syms.iter().any(|p| p.len() >= 512) {
            if MAX_TICKS.with(|m| m.get()) > LONG_TICK_CAP {
                acc.inc("cases.discarded_long_input_with_expensive_grammar");
                return 0;
            }
            acc.inc("cases.with_an_input_longer_than_one_stream_batch");
        }
        // fault: abort some operations in the middle (other clients keep parsing through it)
        if rng.chance(1, 3) {
            for c in case.clients.iter_mut() {
                for o in c.iter_mut() {
                    let cbs = refs0[&(o.inp, mode_ix(o.mode), 0)].1;
                    if cbs > 0 && rng.chance(1, 4) {
                        o.abort = rng.range(1, cbs);
                    }
                }
            }
        }
        let refs = references(&built.fresh_op, &case.clients);
        let est: u64 = case.clients.iter().flatten().map(|o| refs[&(o.inp, mode_ix(o.mode), o.abort)].1 + 2).sum::<u64>() + 4;
        let n_sched = if tier == "thorough" { 16 } else { 10 };
        let mut plans = vec![SPlan::Sequential, SPlan::RoundRobin];
        while plans.len() < n_sched {
            let s = rng.next_u64();
            plans.push(match rng.below(8) {
                0 | 1 | 2 => SPlan::Random { seed: s },
                3 | 4 => SPlan::Sticky { seed: s, den: *rng.pick(&[3u64, 6, 12, 40]) },
                _ => SPlan::Pct { seed: s, depth: rng.range(1, 4) as u32, est_steps: est },
            });
        }
        let (recs, _) = explore(&built.shared_op, &case.clients, &plans);
        // references again afterwards: a fresh parser must not have been affected either
        let refs2 = references(&built.fresh_op, &case.clients);
        let mut d = fold(fold_bytes(11, subject_shown(&case.subject).as_bytes()), fold_bytes(12, format!("{:?}", case.clients).as_bytes()));
        let nclients = case.clients.len();
        acc.inc(&format!("cases.clients.{}", nclients));
        acc.inc(&format!("cases.subject.{}", match &case.subject {
            Subject::SyncDyn { kind, .. } => format!("shared_dyn_{:?}", kind),
            Subject::ZooArc { .. } => if case.built_on_helper { "zoo_Arc_dyn(built on a helper thread)".into() } else { "zoo_Arc_dyn".into() },
            Subject::ZooStaticCache { .. } => "zoo_static_Cache".into(),
        }));
        let mut viol: Option<(Mismatch, usize)> = None;
        for (i, rec) in recs.iter().enumerate() {
            acc.inc("evaluations.executions");
            acc.inc(&format!("executions.scheduler.{}", plan_name(&plans[i])));
            acc.add("evaluations.concurrent_operations", rec.results.len() as u64);
            acc.add("sim_steps.scheduler_decisions", rec.decisions);
            acc.add("sim_steps.yields_at_callouts", rec.yields);
            acc.add("fired.context_switches_mid_parse", rec.midop_switches);
            acc.max("max.context_switches_mid_parse_in_one_execution", rec.midop_switches);
            acc.add("fault.aborted_parse_fired", rec.results.iter().filter(|r| r.3).count() as u64);
            let sd = trace_switch_digest(&rec.trace);
            acc.distinct("interleavings", fold(d, sd));
            if rec.midop_switches >= 2 {
                acc.distinct("nontrivial_cases", fold(d, sd));
            }
            for r in &rec.results {
                d = fold(d, r.2.digest());
            }
            if viol.is_none() {
                if let Some(m) = judge(&refs, &case.clients, rec) {
                    viol = Some((m, i));
                }
            }
        }
        if viol.is_none() {
            for (k, (a, _)) in &refs {
                if refs2[k].0 != *a {
                    viol = Some((Mismatch { class: "fresh-parser-unstable".into(), client: 0, op: 0, expected: a.clone(), observed: refs2[k].0.clone() }, 0));
                    break;
                }
            }
        }
        acc.distinct("cases", d);
        if let Some((m, i)) = viol {
            let rp = Replay {
                engine: "thrsim".into(),
                property: "C13".into(),
                seed,
                case: idx,
                class: m.class.clone(),
                subject_shown: subject_shown(&case.subject),
                pool_shown: pool_shown(&case),
                spec: case.clone(),
                schedules: recs[..=i].iter().map(|r| r.trace.clone()).collect(),
                plan_kind: plan_name(&plans[i]).into(),
                failing: Some((m.client, m.op)),
                expected: Some(m.expected.clone()),
                observed: Some(m.observed.clone()),
            };
            acc.violations.push(Violation {
                property: "C13".into(),
                engine: "thrsim".into(),
                seed,
                case: idx,
                class: m.class.clone(),
                summary: format!(
                    "{} subject={} pool={:?} clients={} scheduler={} client#{} op#{} expected={} observed={}",
                    m.class,
                    rp.subject_shown,
                    rp.pool_shown,
                    nclients,
                    rp.plan_kind,
                    m.client,
                    m.op,
                    m.expected.brief(),
                    m.observed.brief()
                ),
                replay: serde_json::to_value(&rp).unwrap(),
            });
        } else {
            acc.sample("samples", idx, 6, || {
                let r = recs.iter().max_by_key(|r| r.midop_switches).unwrap();
                json!({
                    "case": idx, "subject": subject_shown(&case.subject), "pool": pool_shown(&case),
                    "clients": case.clients.iter().map(|c| c.iter().map(|o| format!("{:?}(#{}){}", o.mode, o.inp, if o.abort > 0 { format!(" abort@{}", o.abort) } else { String::new() })).collect::<Vec<_>>()).collect::<Vec<_>>(),
                    "schedules_run": recs.len(),
                    "busiest_schedule_head": r.trace.iter().take(60).map(|x| x.to_string()).collect::<Vec<_>>().join(""),
                    "context_switches_mid_parse": r.midop_switches,
                })
            });
        }
        drop(built);
        d
    }
}

// ---------------------------------------------------------------------------------------------
// Replay + minimisation

pub fn replay(rp: &Replay) -> Option<(String, Option<(usize, usize)>, Outcome, Outcome, Vec<Vec<u32>>)> {
    let built = build_case(&rp.spec);
    // same sequence of parses as the generating run: un-aborted references first
    let mut plain = rp.spec.clients.clone();
    for c in plain.iter_mut() {
        for o in c.iter_mut() {
            o.abort = 0;
        }
    }
    let _ = references(&built.fresh_op, &plain);
    let refs = references(&built.fresh_op, &rp.spec.clients);
    let plans: Vec<SPlan> = rp.schedules.iter().map(|t| SPlan::Replay { trace: t.clone() }).collect();
    let (recs, _) = explore(&built.shared_op, &rp.spec.clients, &plans);
    let refs2 = references(&built.fresh_op, &rp.spec.clients);
    for (i, rec) in recs.iter().enumerate() {
        if let Some(m) = judge(&refs, &rp.spec.clients, rec) {
            return Some((m.class, Some((m.client, m.op)), m.expected, m.observed, recs[..=i].iter().map(|r| r.trace.clone()).collect()));
        }
    }
    for (k, (a, _)) in &refs {
        if refs2[k].0 != *a {
            return Some(("fresh-parser-unstable".into(), None, a.clone(), refs2[k].0.clone(), recs.iter().map(|r| r.trace.clone()).collect()));
        }
    }
    None
}

fn fam(c: &str) -> &str {
    if c.starts_with("concurrent") {
        "concurrent"
    } else {
        c
    }
}

pub fn minimise(rp: &Replay) -> Replay {
    let family = fam(&rp.class).to_string();
    let mut best = rp.clone();
    let mut budget = 400i32;
    let mut still = |cand: &Replay| -> Option<Replay> {
        if budget <= 0 {
            return None;
        }
        budget -= 1;
        match replay(cand) {
            Some((class, failing, exp, obs, trace)) if fam(&class) == family => {
                let mut c = cand.clone();
                c.class = class;
                c.failing = failing;
                c.expected = Some(exp);
                c.observed = Some(obs);
                c.schedules = trace;
                c.subject_shown = subject_shown(&c.spec.subject);
                c.pool_shown = pool_shown(&c.spec);
                Some(c)
            }
            _ => None,
        }
    };
    let mut progress = true;
    while progress {
        progress = false;
        // 1. drop operations (last first), never the last op of the run
        for ci in 0..best.spec.clients.len() {
            let mut k = best.spec.clients[ci].len();
            while k > 0 {
                k -= 1;
                if best.spec.clients.iter().map(|c| c.len()).sum::<usize>() <= 1 {
                    break;
                }
                let mut c = best.clone();
                c.spec.clients[ci].remove(k);
                // the recorded schedule no longer fits exactly; Replay falls back deterministically
                if let Some(b) = still(&c) {
                    best = b;
                    progress = true;
                }
            }
        }
        // 2a. drop earlier executions (they only matter if state is carried between executions)
        let mut e = 0;
        while best.schedules.len() > 1 && e + 1 < best.schedules.len() {
            let mut c = best.clone();
            c.schedules.remove(e);
            if let Some(b) = still(&c) {
                best = b;
                progress = true;
            } else {
                e += 1;
            }
        }
        // 2b. remove context switches from the failing schedule: stay with the previous client
        let last = best.schedules.len() - 1;
        let mut i = 1;
        while i < best.schedules[last].len() {
            let last = best.schedules.len() - 1;
            if i < best.schedules[last].len() && best.schedules[last][i] != best.schedules[last][i - 1] {
                let mut c = best.clone();
                c.schedules[last][i] = c.schedules[last][i - 1];
                if let Some(b) = still(&c) {
                    if b.schedules.len() == best.schedules.len() {
                        best = b;
                        progress = true;
                        continue;
                    }
                }
            }
            i += 1;
        }
        // 3. no aborts, plain parse
        for ci in 0..best.spec.clients.len() {
            for k in 0..best.spec.clients[ci].len() {
                let o = best.spec.clients[ci][k].clone();
                for cand in [COp { inp: o.inp, mode: PMode::Parse, abort: 0 }, COp { inp: o.inp, mode: o.mode, abort: 0 }] {
                    if cand == best.spec.clients[ci][k] {
                        continue;
                    }
                    let mut c = best.clone();
                    c.spec.clients[ci][k] = cand;
                    if let Some(b) = still(&c) {
                        best = b;
                        progress = true;
                        break;
                    }
                }
            }
        }
        // 4. shrink inputs and grammar (generated subjects only)
        if let Subject::SyncDyn { .. } = &best.spec.subject {
            for pi in 0..best.spec.pool_syms.len() {
                let mut j = 0;
                while j < best.spec.pool_syms[pi].len() {
                    let mut c = best.clone();
                    c.spec.pool_syms[pi].remove(j);
                    if let Some(b) = still(&c) {
                        best = b;
                        progress = true;
                    } else {
                        j += 1;
                    }
                }
            }
            let n = match &best.spec.subject {
                Subject::SyncDyn { grammar, .. } => gram::count_nodes(grammar),
                _ => 0,
            };
            for pos in 0..n {
                let cur = match &best.spec.subject {
                    Subject::SyncDyn { grammar, .. } => grammar.clone(),
                    _ => unreachable!(),
                };
                for mut gnew in crate::srcsim::shrink_at(&cur, pos) {
                    gram::fixup(&mut gnew, 8);
                    if gram::count_nodes(&gnew) >= gram::count_nodes(&cur) {
                        continue;
                    }
                    let mut c = best.clone();
                    if let Subject::SyncDyn { grammar, .. } = &mut c.spec.subject {
                        *grammar = gnew;
                    }
                    if let Some(b) = still(&c) {
                        best = b;
                        progress = true;
                        break;
                    }
                }
            }
        }
    }
    let _ = char_text;
    best
}
