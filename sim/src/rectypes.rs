//! C12 over *output types*: a recursive parser equals its unrolling whatever its output type is. The
//! generated grammars of recsim and the templates of lifesim all produce one value type; this small
//! replica runs one recursive grammar shape for output types with unusual properties — zero-sized
//! (`()`, a unit struct, `[(); 2]`), one byte, large (`[u64; 32]`), heap-owning and not `Copy`
//! (`String`, `Box<u64>`), reference-counted (`Rc<u64>`) — built three ways: `recursive()`,
//! `declare()/define()`, and with NO `Recursive` (the self-reference expanded depth + 2 times).
//! Compared: the output (Debug rendering), every error (span, found, text), and the *log of the
//! grammar's own closures* — which closure ran, in which order, with which span — for `parse` and for
//! `check`. The closures belong to the grammar, so "behaves exactly like the expansion" covers them.

use crate::hook;
use crate::recsim::Life;
use chumsky::prelude::*;
use std::cell::RefCell;
use std::fmt::Debug;
use std::panic::{catch_unwind, AssertUnwindSafe};
use std::rc::Rc;

type In<'a> = &'a [u8];
type Er<'a> = extra::Err<Rich<'a, u8>>;
type BX<'a, O> = Boxed<'a, 'a, In<'a>, O, Er<'a>>;

pub const N_TYPES: u8 = 8;
pub const TYPE_NAMES: [&str; 8] = ["()", "unit struct", "[(); 2]", "u8", "[u64; 32]", "String", "Box<u64>", "Rc<u64>"];

pub trait OutT: Clone + Debug + 'static {
    fn leaf() -> Self;
    fn wrap(inner: Self) -> Self;
    fn join(items: Vec<Self>) -> Self;
}
impl OutT for () {
    fn leaf() {}
    fn wrap(_: ()) {}
    fn join(_: Vec<()>) {}
}
#[derive(Clone, Debug)]
pub struct Unit;
impl OutT for Unit {
    fn leaf() -> Unit {
        Unit
    }
    fn wrap(_: Unit) -> Unit {
        Unit
    }
    fn join(_: Vec<Unit>) -> Unit {
        Unit
    }
}
impl OutT for [(); 2] {
    fn leaf() -> Self {
        [(); 2]
    }
    fn wrap(_: Self) -> Self {
        [(); 2]
    }
    fn join(_: Vec<Self>) -> Self {
        [(); 2]
    }
}
impl OutT for u8 {
    fn leaf() -> u8 {
        1
    }
    fn wrap(x: u8) -> u8 {
        x.wrapping_mul(3).wrapping_add(1)
    }
    fn join(v: Vec<u8>) -> u8 {
        v.iter().fold(7u8, |h, x| h.wrapping_mul(5).wrapping_add(*x))
    }
}
impl OutT for [u64; 32] {
    fn leaf() -> Self {
        [1; 32]
    }
    fn wrap(mut x: Self) -> Self {
        for (i, w) in x.iter_mut().enumerate() {
            *w = w.wrapping_mul(3).wrapping_add(i as u64);
        }
        x
    }
    fn join(v: Vec<Self>) -> Self {
        let mut out = [7u64; 32];
        for x in v {
            for i in 0..32 {
                out[i] = out[i].wrapping_mul(5).wrapping_add(x[(i + 1) % 32]);
            }
        }
        out
    }
}
impl OutT for String {
    fn leaf() -> String {
        "x".into()
    }
    fn wrap(x: String) -> String {
        format!("[{}]", x)
    }
    fn join(v: Vec<String>) -> String {
        format!("({})", v.join(" "))
    }
}
impl OutT for Box<u64> {
    fn leaf() -> Self {
        Box::new(1)
    }
    fn wrap(x: Self) -> Self {
        Box::new(x.wrapping_mul(3).wrapping_add(1))
    }
    fn join(v: Vec<Self>) -> Self {
        Box::new(v.iter().fold(7u64, |h, x| h.wrapping_mul(5).wrapping_add(**x)))
    }
}
impl OutT for Rc<u64> {
    fn leaf() -> Self {
        Rc::new(1)
    }
    fn wrap(x: Self) -> Self {
        Rc::new(x.wrapping_mul(3).wrapping_add(1))
    }
    fn join(v: Vec<Self>) -> Self {
        Rc::new(v.iter().fold(7u64, |h, x| h.wrapping_mul(5).wrapping_add(**x)))
    }
}

thread_local! {
    /// (closure id, span start, span end) in the order the grammar's closures ran
    static LOG: RefCell<Vec<(u8, usize, usize)>> = const { RefCell::new(Vec::new()) };
}
fn log(id: u8, s: SimpleSpan<usize>) {
    LOG.with(|l| l.borrow_mut().push((id, s.start, s.end)));
}

/// P = '(' P* ')'            joined, closure sees the span
///   | '[' P ']'             wrapped
///   | '{' P ('+' P)* '}'    folded from the left
///   | 'x'                   leaf
///   | 'y'                   leaf that also emits a (non-fatal) error
fn body<'a, O: OutT>(me: BX<'a, O>) -> BX<'a, O> {
    let list = me.clone().repeated().collect::<Vec<O>>().delimited_by(just(b'('), just(b')')).map_with(|v: Vec<O>, e| {
        log(1, e.span());
        O::join(v)
    });
    let wrapped = me.clone().delimited_by(just(b'['), just(b']')).map_with(|x: O, e| {
        log(2, e.span());
        O::wrap(x)
    });
    let folded = me
        .clone()
        .foldl_with(just(b'+').ignore_then(me).repeated(), |a: O, b: O, e| {
            log(3, e.span());
            O::join(vec![a, b])
        })
        .delimited_by(just(b'{'), just(b'}'));
    let leaf = just(b'x').map_with(|_, e| {
        log(4, e.span());
        O::leaf()
    });
    let noisy = just(b'y').validate(|_, e, emitter| {
        log(5, e.span());
        emitter.emit(Rich::custom(e.span(), "y is deprecated"));
        O::leaf()
    });
    choice((list, wrapped, folded, leaf, noisy)).boxed()
}

#[derive(Clone, Copy, Debug, PartialEq, Eq)]
pub enum Form {
    Direct,
    Indirect,
    Unroll(usize),
}

fn build<'a, O: OutT>(form: Form) -> BX<'a, O> {
    match form {
        Form::Direct => recursive(|me| body::<O>(Parser::boxed(me))).boxed(),
        Form::Indirect => {
            let mut r = Recursive::declare();
            r.define(body::<O>(Parser::boxed(r.clone())));
            Parser::boxed(r)
        }
        Form::Unroll(k) => {
            let mut u: BX<'a, O> = empty().try_map(|(), span| Err::<O, _>(Rich::custom(span, crate::build::UNROLL_FLOOR))).boxed();
            for _ in 0..k {
                u = body::<O>(u);
            }
            u
        }
    }
}

/// (output or acceptance, errors, closure log)
pub type Obs = (String, Vec<String>, Vec<(u8, usize, usize)>);

fn run<'a, O: OutT>(p: &BX<'a, O>, input: &'a [u8], check: bool) -> Obs {
    LOG.with(|l| l.borrow_mut().clear());
    let show = |errs: Vec<Rich<'a, u8>>| errs.iter().map(|e| format!("{:?}@{}..{} found={:?}", e.reason(), e.span().start, e.span().end, e.found())).collect::<Vec<_>>();
    let (out, errs) = if check {
        let (o, e) = p.check(input).into_output_errors();
        (format!("accepted={}", o.is_some()), show(e))
    } else {
        let (o, e) = p.parse(input).into_output_errors();
        (format!("{:?}", o), show(e))
    };
    (out, errs, LOG.with(|l| l.borrow().clone()))
}

fn with_life<'a, O: OutT>(p: BX<'a, O>, life: &Life, input: &'a [u8], check: bool) -> Obs {
    match life {
        Life::Value => run(&p, input, check),
        Life::CloneDropOriginal => {
            let q = p.clone();
            drop(p);
            run(&q, input, check)
        }
        Life::Reboxed => {
            let q = p.clone();
            let r = Parser::boxed(q.clone());
            drop(p);
            drop(q);
            run(&r, input, check)
        }
        Life::Twice => {
            let _ = run(&p, input, check);
            run(&p, input, check)
        }
    }
}

fn guarded(f: impl FnOnce() -> Obs) -> Result<Obs, String> {
    catch_unwind(AssertUnwindSafe(f)).map_err(|_| format!("panicked: {}", hook::take_panic()))
}

fn check_ty<O: OutT>(input: &[u8], life: &Life) -> Result<Option<(String, String, String)>, String> {
    let openers = input.iter().filter(|b| matches!(b, b'(' | b'[' | b'{' | b'+')).count();
    for chk in [false, true] {
        let reference = guarded(|| run(&build::<O>(Form::Unroll(openers + 2)), input, chk)).map_err(|e| format!("the unrolling {}", e))?;
        if reference.1.iter().any(|e| e.contains(crate::build::UNROLL_FLOOR)) {
            return Err("unrolling floor reached".into());
        }
        for (name, form) in [("recursive()", Form::Direct), ("declare/define", Form::Indirect)] {
            let got = guarded(|| with_life(build::<O>(form), life, input, chk));
            let same = matches!(&got, Ok(g) if *g == reference);
            if !same {
                let what = match &got {
                    Ok(g) if g.0 != reference.0 || g.1 != reference.1 => "output-type-replica: result differs from the unrolling",
                    Ok(_) => "output-type-replica: the grammar's closures ran differently from the unrolling",
                    Err(_) => "output-type-replica: panicked",
                };
                return Ok(Some((format!("{}:{}:{}", what, name, if chk { "check" } else { "parse" }), format!("{:?}", reference), format!("{:?}", got))));
            }
        }
    }
    Ok(None)
}

/// Ok(Some((class, expected, observed))) if a recursive form differs from the unrolling; Err = harness problem.
pub fn check(ty: u8, input: &[u8], life: &Life) -> Result<Option<(String, String, String)>, String> {
    match ty {
        0 => check_ty::<()>(input, life),
        1 => check_ty::<Unit>(input, life),
        2 => check_ty::<[(); 2]>(input, life),
        3 => check_ty::<u8>(input, life),
        4 => check_ty::<[u64; 32]>(input, life),
        5 => check_ty::<String>(input, life),
        6 => check_ty::<Box<u64>>(input, life),
        _ => check_ty::<Rc<u64>>(input, life),
    }
}

/// A nested input of the grammar above (well-formed unless `damage`), at most `max_len` bytes.
pub fn gen_input(rng: &mut crate::prng::Rng, depth: usize, damage: u8) -> Vec<u8> {
    fn go(rng: &mut crate::prng::Rng, d: usize, out: &mut Vec<u8>) {
        if d == 0 || out.len() > 120 {
            out.push(if rng.chance(1, 5) { b'y' } else { b'x' });
            return;
        }
        match rng.below(4) {
            0 => {
                out.push(b'(');
                for _ in 0..rng.below(4) {
                    let dd = if rng.chance(1, 2) { d - 1 } else { rng.usize(d) };
                    go(rng, dd, out);
                }
                out.push(b')');
            }
            1 => {
                out.push(b'[');
                go(rng, d - 1, out);
                out.push(b']');
            }
            2 => {
                out.push(b'{');
                go(rng, d - 1, out);
                for _ in 0..rng.below(3) {
                    out.push(b'+');
                    let dd = rng.usize(d);
                    go(rng, dd, out);
                }
                out.push(b'}');
            }
            _ => go(rng, d - 1, out),
        }
    }
    let mut out = Vec::new();
    go(rng, depth, &mut out);
    match damage {
        1 if !out.is_empty() => {
            let k = rng.usize(out.len());
            out.truncate(k);
        }
        2 if !out.is_empty() => {
            let k = rng.usize(out.len());
            out[k] = *rng.pick(&[b')', b']', b'}', b'+', b'z']);
        }
        3 => out.push(b')'),
        _ => {}
    }
    out
}

// ---------------------------------------------------------------------------------------------
// "Defining a declared parser a second time is refused with a panic at the definition site, never
// silently accepted" — over the *type of the first definition*. lifesim defines its declared parsers
// with bodies that own a handle to themselves; a grammar written "declare everything, then define one
// by one" also has leaf non-terminals whose definition is a zero-sized parser (`any().filter(f)`,
// `any()`, a `try_map` with a capture-less closure), a one-byte one (`just(b)`), a boxed one.

pub const N_DEF_KINDS: u8 = 7;
pub const DEF_KIND_NAMES: [&str; 7] = ["any().filter(fn) [zero-sized]", "any() [zero-sized]", "any().try_map(fn) [zero-sized]", "just(b'x')", "just(b'x').boxed()", "self-referential", "empty().to(b'e') [nullable]"];

type RU<'a> = Recursive<chumsky::recursive::Indirect<'a, 'a, In<'a>, u8, Er<'a>>>;

fn define_kind<'a>(r: &mut RU<'a>, kind: u8, second: bool) {
    // (the second definition is always a different parser, often of the same type as the first)
    // (no clone of the handle is alive during a define unless the definition itself owns one)
    match (kind, second) {
        (0, false) => r.define(any().filter(|c: &u8| c.is_ascii_digit())),
        (0, true) => r.define(any().filter(|c: &u8| c.is_ascii_alphabetic())),
        (1, false) => r.define(any()),
        (1, true) => r.define(any().filter(|c: &u8| *c == b'q')),
        (2, false) => r.define(any().try_map(|c: u8, span| if c.is_ascii_digit() { Ok(c) } else { Err(Rich::custom(span, "not a digit")) })),
        (2, true) => r.define(any().try_map(|c: u8, span| if c.is_ascii_alphabetic() { Ok(c) } else { Err(Rich::custom(span, "not a letter")) })),
        (3, false) => r.define(just(b'7')),
        (3, true) => r.define(just(b'a')),
        (4, false) => r.define(just(b'7').boxed()),
        (4, true) => r.define(any().boxed()),
        (5, false) => {
            let me = r.clone();
            r.define(just(b'(').ignore_then(me).then_ignore(just(b')')).or(just(b'7')))
        }
        (5, true) => {
            let me = r.clone();
            r.define(just(b'[').ignore_then(me).then_ignore(just(b']')).or(just(b'a')))
        }
        (_, false) => r.define(empty().to(b'e')),
        (_, true) => r.define(any()),
    }
}

/// the declared parser `leaf` used by a second rule: item = '<' leaf '>' | leaf
fn observe<'a>(leaf: &RU<'a>) -> Vec<String> {
    let item = leaf.clone().delimited_by(just(b'<'), just(b'>')).or(leaf.clone()).then_ignore(end());
    [&b"7"[..], b"a", b"q", b"<7>", b"<a>", b"((7))", b"[a]", b"", b"<>"]
        .iter()
        .map(|i| {
            let (o, e) = item.parse(*i).into_output_errors();
            let (c, e2) = item.check(*i).into_output_errors();
            format!("{:?} {} / {} {}", o, e.len(), c.is_some(), e2.len())
        })
        .collect()
}

/// Some((class, expected, observed)) if the second definition is not refused as C12 demands.
/// `via_clone`: the second define goes through a clone of the handle; `use_between`: the parser is
/// used between the two definitions.
pub fn define_twice_check(kind: u8, via_clone: bool, use_between: bool) -> Option<(String, String, String)> {
    let r = catch_unwind(AssertUnwindSafe(|| {
        let mut leaf: RU<'_> = Recursive::declare();
        define_kind(&mut leaf, kind, false);
        // what the first definition does, from a separately built parser
        let mut fresh: RU<'_> = Recursive::declare();
        define_kind(&mut fresh, kind, false);
        let want = observe(&fresh);
        if use_between {
            let _ = observe(&leaf);
        }
        let second = catch_unwind(AssertUnwindSafe(|| {
            if via_clone {
                let mut c = leaf.clone();
                define_kind(&mut c, kind, true);
            } else {
                define_kind(&mut leaf, kind, true);
            }
        }));
        let msg = if second.is_err() { Some(hook::take_panic()) } else { None };
        (msg, want, observe(&leaf))
    }));
    let exp = format!("second define() panics with {:?} at its caller (rectypes.rs) and the parser keeps behaving as its first definition", crate::lifesim::DEFINE_ONCE_MSG);
    match r {
        Err(_) => Some(("define-twice-replica: panicked outside the second define".into(), exp, format!("panicked: {}", hook::take_panic()))),
        Ok((None, _, _)) => Some(("second-define-accepted".into(), exp, "a second define() returned normally".into())),
        Ok((Some(m), _, _)) if !m.contains(crate::lifesim::DEFINE_ONCE_MSG) => Some(("second-define-wrong-panic".into(), exp, m)),
        Ok((Some(m), _, _)) if !m.contains("rectypes.rs") => Some(("second-define-not-at-definition-site".into(), exp, m)),
        Ok((Some(_), want, got)) if want != got => Some(("second-define-changed-the-parser".into(), format!("{:?}", want), format!("{:?}", got))),
        _ => None,
    }
}
