//! A small zoo of *statically typed* grammars over `&str` (C13 workload).
//!
//! The dynamically generated grammars are `Boxed` (an `Rc` to heap nodes), so wrapping them in
//! `Box`/`Rc`/`Either` never moves a parser node. The zoo grammars are large unboxed values:
//! moving a handle moves every node, including `Memoized` nodes whose memo key is their address.
//! Every user closure reports to `hook::cb()` (scheduling point under thrsim, abort point under
//! histsim).

use crate::build::Insp;
use crate::hook;
use crate::tok::SpanX;
use crate::val::Val;
use chumsky::input::MapExtra;
use chumsky::pratt::{infix, left, postfix, prefix, right};
use chumsky::prelude::*;
use chumsky::{extra, text};

pub type ExS<'a> = extra::Full<Rich<'a, char, SimpleSpan<usize>>, Insp, ()>;
type ME<'a, 'b> = MapExtra<'a, 'b, &'a str, ExS<'a>>;

fn num_of(s: &str) -> u64 {
    s.bytes().fold(0u64, |a, b| a.wrapping_mul(10).wrapping_add((b - b'0') as u64))
}

/// Not Sync (nested_delimiters is recursive inside): comma list in brackets, nested-delimiter recovery, spans.
pub fn list<'a>() -> impl Parser<'a, &'a str, Val, ExS<'a>> + Clone {
    let item = text::ident()
        .map_with(|s: &'a str, e: &mut ME<'a, '_>| {
            hook::cb();
            Val::Span(e.span().norm(), Box::new(Val::Num(s.len() as u64)))
        })
        .padded();
    item.separated_by(just(','))
        .allow_trailing()
        .collect::<Vec<Val>>()
        .map(|v| {
            hook::cb();
            Val::Seq(v)
        })
        .delimited_by(just('['), just(']'))
        .recover_with(via_parser(nested_delimiters('[', ']', [('(', ')')], |sp: SimpleSpan<usize>| {
            hook::cb();
            Val::Span(sp.norm(), Box::new(Val::Fallback(9)))
        })))
        .padded()
        .then_ignore(end())
}

/// Sync-capable: several address-keyed `memoized()` nodes inside one unboxed value.
pub fn memo<'a>() -> impl Parser<'a, &'a str, Val, ExS<'a>> + Clone + Send + Sync {
    let a = just('a')
        .repeated()
        .at_least(1)
        .count()
        .map(|n| {
            hook::cb();
            Val::Num(n as u64)
        })
        .memoized();
    let b = one_of("bc")
        .repeated()
        .at_least(1)
        .count()
        .map(|n| {
            hook::cb();
            Val::Num(100 + n as u64)
        })
        .memoized();
    let ab = a.clone().then(b.clone()).map(|(x, y)| Val::Seq(vec![x, y])).memoized();
    choice((
        ab.clone().then_ignore(just('x')).map(|v| Val::Seq(vec![Val::Tok(0), v])),
        ab.clone().then_ignore(just('y')).map(|v| Val::Seq(vec![Val::Tok(1), v])),
        a.clone().then_ignore(just('x')).map(|v| Val::Seq(vec![Val::Tok(2), v])),
        a.then_ignore(just('y')).map(|v| Val::Seq(vec![Val::Tok(3), v])),
        b.then_ignore(just('z')).map(|v| Val::Seq(vec![Val::Tok(4), v])),
    ))
    .then_ignore(end())
}

/// Sync-capable: flat Pratt table.
pub fn pratt<'a>() -> impl Parser<'a, &'a str, Val, ExS<'a>> + Clone + Send + Sync {
    let atom = text::int(10)
        .map(|s: &'a str| {
            hook::cb();
            Val::Num(num_of(s))
        })
        .padded();
    let op = |c: char| just(c).padded();
    atom.pratt((
        infix(left(1), op('+'), |l: Val, _, r: Val, _| {
            hook::cb();
            Val::Seq(vec![Val::Tok(b'+'), l, r])
        }),
        infix(left(2), op('*'), |l: Val, _, r: Val, _| {
            hook::cb();
            Val::Seq(vec![Val::Tok(b'*'), l, r])
        }),
        infix(right(3), op('^'), |l: Val, _, r: Val, _| {
            hook::cb();
            Val::Seq(vec![Val::Tok(b'^'), l, r])
        }),
        prefix(4, op('-'), |_, r: Val, _| {
            hook::cb();
            Val::Seq(vec![Val::Tok(b'-'), r])
        }),
        postfix(5, op('!'), |l: Val, _, _| {
            hook::cb();
            Val::Seq(vec![Val::Tok(b'!'), l])
        }),
    ))
    .then_ignore(end())
}

/// Sync-capable: regex tokens (regex-automata carries a thread-aware cache pool shared by all users).
pub fn rx<'a>() -> impl Parser<'a, &'a str, Val, ExS<'a>> + Clone + Send + Sync {
    let word = chumsky::regex::regex::<&'a str, ExS<'a>>("[a-z]+[0-9]*").map_with(|s: &'a str, e: &mut ME<'a, '_>| {
        hook::cb();
        Val::Span(e.span().norm(), Box::new(Val::Num(s.len() as u64)))
    });
    let number = chumsky::regex::regex::<&'a str, ExS<'a>>("[0-9]+(\\.[0-9]+)?").map(|s: &'a str| {
        hook::cb();
        Val::Num(s.len() as u64 + 1000)
    });
    word.or(number).padded().repeated().at_least(1).collect::<Vec<Val>>().map(Val::Seq).then_ignore(end())
}

/// Sync-capable: a second regex grammar with other patterns in another order (several different
/// regex-bearing parsers must be able to coexist on one thread, wherever each was built).
pub fn rx2<'a>() -> impl Parser<'a, &'a str, Val, ExS<'a>> + Clone + Send + Sync {
    let number = chumsky::regex::regex::<&'a str, ExS<'a>>("[0-9]+").map(|s: &'a str| {
        hook::cb();
        Val::Num(num_of(s))
    });
    let upper = chumsky::regex::regex::<&'a str, ExS<'a>>("[A-Z][a-z]*").map_with(|s: &'a str, e: &mut ME<'a, '_>| {
        hook::cb();
        Val::Span(e.span().norm(), Box::new(Val::Num(s.len() as u64)))
    });
    let punct = chumsky::regex::regex::<&'a str, ExS<'a>>("[-+*/]").to(Val::Unit);
    choice((number, upper, punct)).padded().repeated().at_least(1).collect::<Vec<Val>>().map(Val::Seq).then_ignore(end())
}

/// Sync-capable: validation that emits (secondary errors) and skip-recovery inside a repetition.
pub fn valid<'a>() -> impl Parser<'a, &'a str, Val, ExS<'a>> + Clone + Send + Sync {
    let byte = text::int(10).validate(|s: &'a str, e: &mut ME<'a, '_>, em| {
        hook::cb();
        let n = num_of(s);
        if n > 255 {
            em.emit(Rich::custom(e.span(), "too big"));
        }
        Val::Num(n)
    });
    let item = byte.recover_with(skip_then_retry_until(any().ignored(), one_of(" ;").ignored()));
    item.separated_by(just(' ')).at_least(1).collect::<Vec<Val>>().map(Val::Seq).then_ignore(just(';')).then_ignore(end())
}

/// Not Sync (Recursive is an Rc): arithmetic with nested parentheses.
pub fn arith<'a>() -> impl Parser<'a, &'a str, Val, ExS<'a>> + Clone {
    recursive(|expr| {
        let num = text::int(10)
            .map(|s: &'a str| {
                hook::cb();
                Val::Num(num_of(s))
            })
            .padded();
        let atom = num.or(expr.delimited_by(just('('), just(')')).padded());
        let prod = atom.clone().foldl(one_of("*/").then(atom).repeated(), |a: Val, (op, b): (char, Val)| {
            hook::cb();
            Val::Seq(vec![Val::Tok(op as u8), a, b])
        });
        prod.clone().foldl(one_of("+-").then(prod).repeated(), |a: Val, (op, b): (char, Val)| {
            hook::cb();
            Val::Seq(vec![Val::Tok(op as u8), a, b])
        })
    })
    .then_ignore(end())
}

/// Not Sync: s-expressions through declare/define, memoized atom, recovery on the list body.
pub fn sexp<'a>() -> impl Parser<'a, &'a str, Val, ExS<'a>> + Clone {
    let mut node = Recursive::declare();
    let atom = text::ident()
        .map(|s: &'a str| {
            hook::cb();
            Val::Num(s.len() as u64)
        })
        .memoized();
    let lst = node
        .clone()
        .padded()
        .repeated()
        .collect::<Vec<Val>>()
        .map(Val::Seq)
        .delimited_by(just('('), just(')'))
        .recover_with(via_parser(nested_delimiters('(', ')', [('[', ']')], |sp: SimpleSpan<usize>| {
            hook::cb();
            Val::Span(sp.norm(), Box::new(Val::Fallback(8)))
        })));
    node.define(atom.or(lst));
    node.padded().then_ignore(end())
}

// ---------------------------------------------------------------------------------------------
// Other error types. Every engine is typed over `Rich`; the zero-sized `EmptyErr` (`extra::Default`),
// `Cheap` and `Simple` take other paths inside chumsky (e.g. the zero-sized-error fast paths of
// `add_alt`). A grammar over another error type is embedded as an *extension parser* that runs it as
// a separate, complete parse of the remaining input — `parse_with_state` in emit mode,
// `check_with_state` in check mode — and reports its errors through one `Rich::custom`. To the
// engines it is just another parser value that can be cloned, boxed, cached and shared.

use chumsky::extension::v1::{Ext, ExtParser};
use chumsky::input::InputRef;

pub struct Inner<P, E>(pub P, pub std::marker::PhantomData<fn() -> E>);

impl<P: Clone, E> Clone for Inner<P, E> {
    fn clone(&self) -> Self {
        Inner(self.0.clone(), std::marker::PhantomData)
    }
}

pub trait ShowErr {
    fn show(&self) -> String;
}
impl ShowErr for EmptyErr {
    fn show(&self) -> String {
        "e".into()
    }
}
impl ShowErr for Cheap<SimpleSpan<usize>> {
    fn show(&self) -> String {
        format!("c{}..{}", self.span().start, self.span().end)
    }
}
impl<'a> ShowErr for Simple<'a, char, SimpleSpan<usize>> {
    fn show(&self) -> String {
        format!("s{}..{}:{:?}", self.span().start, self.span().end, self.found())
    }
}

impl<'a, P, E> ExtParser<'a, &'a str, Val, ExS<'a>> for Inner<P, E>
where
    E: chumsky::error::Error<'a, &'a str> + ShowErr + 'a,
    P: Parser<'a, &'a str, Val, extra::Full<E, Insp, ()>>,
{
    fn parse(&self, inp: &mut InputRef<'a, '_, &'a str, ExS<'a>>) -> Result<Val, Rich<'a, char, SimpleSpan<usize>>> {
        let c = inp.cursor();
        let rest: &'a str = inp.slice_from(&c..);
        while inp.next_maybe().is_some() {}
        let mut st = Insp::default();
        let (out, errs) = self.0.parse_with_state(rest, &mut st).into_output_errors();
        match (out, errs.is_empty()) {
            (Some(v), true) => Ok(Val::St(st.n, st.h, Box::new(v))),
            (out, _) => Err(Rich::custom(inp.span_since(&c), format!("inner out={} errs=[{}]", out.is_some(), errs.iter().map(|e| e.show()).collect::<Vec<_>>().join(",")))),
        }
    }
    fn check(&self, inp: &mut InputRef<'a, '_, &'a str, ExS<'a>>) -> Result<(), Rich<'a, char, SimpleSpan<usize>>> {
        let c = inp.cursor();
        let rest: &'a str = inp.slice_from(&c..);
        while inp.next_maybe().is_some() {}
        let mut st = Insp::default();
        let (out, errs) = (&self.0).check_with_state(rest, &mut st).into_output_errors();
        match (out, errs.is_empty()) {
            (Some(()), true) => Ok(()),
            (out, _) => Err(Rich::custom(inp.span_since(&c), format!("inner out={} errs=[{}]", out.is_some(), errs.iter().map(|e| e.show()).collect::<Vec<_>>().join(",")))),
        }
    }
}

/// Pratt table given as a `Vec` of BOXED operators whose tokens are keywords / try_map-based parsers
/// (they report failure through `add_alt_err`), over an atom of numbers and `true`/`false`.
macro_rules! pratt_vec_body {
    ($X:ty) => {{
        use chumsky::pratt::Operator;
        let atom = choice((
            text::int::<&'a str, $X>(10).map(|s: &'a str| {
                hook::cb();
                Val::Num(num_of(s))
            }),
            text::ascii::keyword::<&'a str, _, $X>("true").to(Val::Num(1)),
            text::ascii::keyword::<&'a str, _, $X>("false").to(Val::Num(0)),
        ))
        .padded();
        let kw = |k: &'static str| text::ascii::keyword::<&'a str, _, $X>(k).padded();
        atom.pratt(vec![
            prefix(3, kw("not"), |_, r: Val, _| {
                hook::cb();
                Val::Seq(vec![Val::Tok(b'n'), r])
            })
            .boxed(),
            infix(left(1), kw("or"), |l: Val, _, r: Val, _| {
                hook::cb();
                Val::Seq(vec![Val::Tok(b'o'), l, r])
            })
            .boxed(),
            infix(right(2), kw("and"), |l: Val, _, r: Val, _| {
                hook::cb();
                Val::Seq(vec![Val::Tok(b'a'), l, r])
            })
            .boxed(),
            prefix(4, just('-').padded(), |_, r: Val, _| {
                hook::cb();
                Val::Seq(vec![Val::Tok(b'-'), r])
            })
            .boxed(),
            postfix(5, just('!').padded(), |l: Val, _, _| {
                hook::cb();
                Val::Seq(vec![Val::Tok(b'!'), l])
            })
            .boxed(),
        ])
    }};
}

/// Not Sync (boxed operators are `Rc`s).
pub fn pratt_vec<'a>() -> impl Parser<'a, &'a str, Val, ExS<'a>> + Clone {
    pratt_vec_body!(ExS<'a>).then_ignore(end())
}

macro_rules! other_error_zoo {
    ($m:ident, $E:ty, $at:expr) => {
        pub mod $m {
            use super::*;
            type E<'a> = $E;
            type X<'a> = extra::Full<E<'a>, Insp, ()>;
            type M<'a, 'b> = MapExtra<'a, 'b, &'a str, X<'a>>;

            /// validation that emits + skip-recovery inside a repetition (Sync-capable)
            pub fn valid<'a>() -> impl Parser<'a, &'a str, Val, ExS<'a>> + Clone + Send + Sync {
                let byte = text::int::<&'a str, X<'a>>(10).validate(|s: &'a str, e: &mut M<'a, '_>, em| {
                    hook::cb();
                    let n = num_of(s);
                    if n > 255 {
                        let at: fn(SimpleSpan<usize>) -> E<'a> = $at;
                        em.emit(at(e.span()));
                    }
                    Val::Num(n)
                });
                let item = byte.recover_with(skip_then_retry_until(any().ignored(), one_of(" ;").ignored()));
                let g = item.separated_by(just(' ')).at_least(1).collect::<Vec<Val>>().map(Val::Seq).then_ignore(just(';'));
                Ext(Inner::<_, E<'a>>(g, std::marker::PhantomData))
            }

            /// address-keyed memoized siblings under a choice whose alternatives fail at different depths (Sync-capable)
            pub fn memo<'a>() -> impl Parser<'a, &'a str, Val, ExS<'a>> + Clone + Send + Sync {
                let a = just::<_, &'a str, X<'a>>('a')
                    .repeated()
                    .at_least(1)
                    .count()
                    .map(|n| {
                        hook::cb();
                        Val::Num(n as u64)
                    })
                    .memoized();
                let b = one_of("bc")
                    .repeated()
                    .at_least(1)
                    .count()
                    .map(|n| {
                        hook::cb();
                        Val::Num(100 + n as u64)
                    })
                    .memoized();
                let ab = a.clone().then(b.clone()).map(|(x, y)| Val::Seq(vec![x, y])).memoized();
                let g = choice((
                    ab.clone().then_ignore(just('x')).map(|v| Val::Seq(vec![Val::Tok(0), v])),
                    ab.then_ignore(just('y')).map(|v| Val::Seq(vec![Val::Tok(1), v])),
                    a.clone().then_ignore(just('x')).map(|v| Val::Seq(vec![Val::Tok(2), v])),
                    a.then_ignore(just('y')).map(|v| Val::Seq(vec![Val::Tok(3), v])),
                    b.then_ignore(just('z')).map(|v| Val::Seq(vec![Val::Tok(4), v])),
                ));
                Ext(Inner::<_, E<'a>>(g, std::marker::PhantomData))
            }

            /// Pratt table as a Vec of boxed operators with keyword tokens (not Sync)
            pub fn pratt_vec<'a>() -> impl Parser<'a, &'a str, Val, ExS<'a>> + Clone {
                let g = pratt_vec_body!(X<'a>);
                Ext(Inner::<_, E<'a>>(g, std::marker::PhantomData))
            }

            /// declare/define recursion, memoized atom, nested-delimiter recovery (not Sync)
            pub fn sexp<'a>() -> impl Parser<'a, &'a str, Val, ExS<'a>> + Clone {
                let mut node = Recursive::declare();
                let atom = text::ascii::ident::<&'a str, X<'a>>()
                    .map(|s: &'a str| {
                        hook::cb();
                        Val::Num(s.len() as u64)
                    })
                    .memoized();
                let lst = node
                    .clone()
                    .padded()
                    .repeated()
                    .collect::<Vec<Val>>()
                    .map(Val::Seq)
                    .delimited_by(just('('), just(')'))
                    .recover_with(via_parser(nested_delimiters('(', ')', [('[', ']')], |sp: SimpleSpan<usize>| {
                        hook::cb();
                        Val::Span(sp.norm(), Box::new(Val::Fallback(8)))
                    })));
                node.define(atom.or(lst));
                Ext(Inner::<_, E<'a>>(node.padded(), std::marker::PhantomData))
            }
        }
    };
}

other_error_zoo!(empty_err, EmptyErr, |_s| EmptyErr::default());
other_error_zoo!(cheap_err, Cheap<SimpleSpan<usize>>, |s| Cheap::new(s));
other_error_zoo!(simple_err, Simple<'a, char, SimpleSpan<usize>>, |s| Simple::new(None, s));

pub const ZOO_NAMES: [&str; 21] = [
    "memo", "pratt", "rx", "valid", "rx2", "list", "arith", "sexp",
    "valid/EmptyErr", "memo/EmptyErr", "valid/Cheap", "memo/Cheap", "valid/Simple", "memo/Simple",
    "sexp/EmptyErr", "sexp/Cheap", "sexp/Simple",
    "pratt_vec", "pratt_vec/EmptyErr", "pratt_vec/Cheap", "pratt_vec/Simple",
];
/// The zoo grammars that are Send + Sync.
pub const ZOO_SYNC_IDS: [usize; 11] = [0, 1, 2, 3, 4, 8, 9, 10, 11, 12, 13];

/// Input pools: accepted, rejected, recovered and memo-heavy strings for each zoo grammar.
pub fn pool(z: usize) -> &'static [&'static str] {
    match z {
        0 | 9 | 11 | 13 => &["aabx", "aaby", "aax", "aay", "bcz", "aabz", "aaaa", "bcbcx", "ay", "", "abbbby"],
        1 => &["1+2*3", "-1^2^3!", "1 + ", "2 * (3", "4!!+5", "1+2+3+4", "^", "7", "12*34", "1*2+3"],
        2 => &["abc 12 x9", "12.5 foo", "abc !", "a1 b2 c3 d4", "", "9.", "zzz", "ab12 cd", "abc 1 d", "a 1.5 zz"],
        3 | 8 | 10 | 12 => &["1 2 3;", "1 300 2;", "1 x 2;", "999 999;", "1 2", ";", "12 @@ 7;", "1 300 2", "999 x"],
        4 => &["12 Abc + 7", "Foo-Bar", "abc", "1 2 3", "", "X * 99 / Yz", "12.5", "12 Ab +", "1 Abc -", "123 A /"],
        5 => &["[a, bc, d]", "[a, (b, c]", "[a,, b]", " [ x1 , y2 , ] ", "[", "[a b]", "[]", "[[a], b]"],
        6 => &["1+2*3", "(1+2)*3", "((((4))))", "1+(2*", "2*/3", "1 + 2 - 3 * 4 / 5", "()", "((1)"],
        17..=20 => &["true", "not true", "1 and not 2", "not not 1!", "1 or", "and", "-1 and 2 or 3", "true and not false", "notx", "- not 7 !"],
        _ => &["(a b c)", "(a (b c) d)", "(a [b) c)", "((", "a", "(a (b [c] d) e)", "()", "(a))"],
    }
}
