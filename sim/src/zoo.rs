//! A small zoo of *statically typed* grammars over `&str` (C13 workload).
//!
//! The dynamically generated grammars are `Boxed` (an `Rc` to heap nodes), so wrapping them in
//! `Box`/`Rc`/`Either` never moves a parser node. The zoo grammars are large unboxed values:
//! moving a handle moves every node, including `Memoized` nodes whose memo key is their address.
//! Every user closure reports to `hook::cb()` (scheduling point under thrsim, abort point under
//! histsim).

use crate::build::Insp;
use crate::hook;
use crate::tok::SpanX;
use crate::val::Val;
use chumsky::input::MapExtra;
use chumsky::pratt::{infix, left, postfix, prefix, right};
use chumsky::prelude::*;
use chumsky::{extra, text};

pub type ExS<'a> = extra::Full<Rich<'a, char, SimpleSpan<usize>>, Insp, ()>;
type ME<'a, 'b> = MapExtra<'a, 'b, &'a str, ExS<'a>>;

fn num_of(s: &str) -> u64 {
    s.bytes().fold(0u64, |a, b| a.wrapping_mul(10).wrapping_add((b - b'0') as u64))
}

/// Not Sync (nested_delimiters is recursive inside): comma list in brackets, nested-delimiter recovery, spans.
pub fn list<'a>() -> impl Parser<'a, &'a str, Val, ExS<'a>> + Clone {
    let item = text::ident()
        .map_with(|s: &'a str, e: &mut ME<'a, '_>| {
            hook::cb();
            Val::Span(e.span().norm(), Box::new(Val::Num(s.len() as u64)))
        })
        .padded();
    item.separated_by(just(','))
        .allow_trailing()
        .collect::<Vec<Val>>()
        .map(|v| {
            hook::cb();
            Val::Seq(v)
        })
        .delimited_by(just('['), just(']'))
        .recover_with(via_parser(nested_delimiters('[', ']', [('(', ')')], |sp: SimpleSpan<usize>| {
            hook::cb();
            Val::Span(sp.norm(), Box::new(Val::Fallback(9)))
        })))
        .padded()
        .then_ignore(end())
}

/// Sync-capable: several address-keyed `memoized()` nodes inside one unboxed value.
pub fn memo<'a>() -> impl Parser<'a, &'a str, Val, ExS<'a>> + Clone + Send + Sync {
    let a = just('a')
        .repeated()
        .at_least(1)
        .count()
        .map(|n| {
            hook::cb();
            Val::Num(n as u64)
        })
        .memoized();
    let b = one_of("bc")
        .repeated()
        .at_least(1)
        .count()
        .map(|n| {
            hook::cb();
            Val::Num(100 + n as u64)
        })
        .memoized();
    let ab = a.clone().then(b.clone()).map(|(x, y)| Val::Seq(vec![x, y])).memoized();
    choice((
        ab.clone().then_ignore(just('x')).map(|v| Val::Seq(vec![Val::Tok(0), v])),
        ab.clone().then_ignore(just('y')).map(|v| Val::Seq(vec![Val::Tok(1), v])),
        a.clone().then_ignore(just('x')).map(|v| Val::Seq(vec![Val::Tok(2), v])),
        a.then_ignore(just('y')).map(|v| Val::Seq(vec![Val::Tok(3), v])),
        b.then_ignore(just('z')).map(|v| Val::Seq(vec![Val::Tok(4), v])),
    ))
    .then_ignore(end())
}

/// Sync-capable: flat Pratt table.
pub fn pratt<'a>() -> impl Parser<'a, &'a str, Val, ExS<'a>> + Clone + Send + Sync {
    let atom = text::int(10)
        .map(|s: &'a str| {
            hook::cb();
            Val::Num(num_of(s))
        })
        .padded();
    let op = |c: char| just(c).padded();
    atom.pratt((
        infix(left(1), op('+'), |l: Val, _, r: Val, _| {
            hook::cb();
            Val::Seq(vec![Val::Tok(b'+'), l, r])
        }),
        infix(left(2), op('*'), |l: Val, _, r: Val, _| {
            hook::cb();
            Val::Seq(vec![Val::Tok(b'*'), l, r])
        }),
        infix(right(3), op('^'), |l: Val, _, r: Val, _| {
            hook::cb();
            Val::Seq(vec![Val::Tok(b'^'), l, r])
        }),
        prefix(4, op('-'), |_, r: Val, _| {
            hook::cb();
            Val::Seq(vec![Val::Tok(b'-'), r])
        }),
        postfix(5, op('!'), |l: Val, _, _| {
            hook::cb();
            Val::Seq(vec![Val::Tok(b'!'), l])
        }),
    ))
    .then_ignore(end())
}

/// Sync-capable: regex tokens (regex-automata carries a thread-aware cache pool shared by all users).
pub fn rx<'a>() -> impl Parser<'a, &'a str, Val, ExS<'a>> + Clone + Send + Sync {
    let word = chumsky::regex::regex::<&'a str, ExS<'a>>("[a-z]+[0-9]*").map_with(|s: &'a str, e: &mut ME<'a, '_>| {
        hook::cb();
        Val::Span(e.span().norm(), Box::new(Val::Num(s.len() as u64)))
    });
    let number = chumsky::regex::regex::<&'a str, ExS<'a>>("[0-9]+(\\.[0-9]+)?").map(|s: &'a str| {
        hook::cb();
        Val::Num(s.len() as u64 + 1000)
    });
    word.or(number).padded().repeated().at_least(1).collect::<Vec<Val>>().map(Val::Seq).then_ignore(end())
}

/// Sync-capable: a second regex grammar with other patterns in another order (several different
/// regex-bearing parsers must be able to coexist on one thread, wherever each was built).
pub fn rx2<'a>() -> impl Parser<'a, &'a str, Val, ExS<'a>> + Clone + Send + Sync {
    let number = chumsky::regex::regex::<&'a str, ExS<'a>>("[0-9]+").map(|s: &'a str| {
        hook::cb();
        Val::Num(num_of(s))
    });
    let upper = chumsky::regex::regex::<&'a str, ExS<'a>>("[A-Z][a-z]*").map_with(|s: &'a str, e: &mut ME<'a, '_>| {
        hook::cb();
        Val::Span(e.span().norm(), Box::new(Val::Num(s.len() as u64)))
    });
    let punct = chumsky::regex::regex::<&'a str, ExS<'a>>("[-+*/]").to(Val::Unit);
    choice((number, upper, punct)).padded().repeated().at_least(1).collect::<Vec<Val>>().map(Val::Seq).then_ignore(end())
}

/// Sync-capable: validation that emits (secondary errors) and skip-recovery inside a repetition.
pub fn valid<'a>() -> impl Parser<'a, &'a str, Val, ExS<'a>> + Clone + Send + Sync {
    let byte = text::int(10).validate(|s: &'a str, e: &mut ME<'a, '_>, em| {
        hook::cb();
        let n = num_of(s);
        if n > 255 {
            em.emit(Rich::custom(e.span(), "too big"));
        }
        Val::Num(n)
    });
    let item = byte.recover_with(skip_then_retry_until(any().ignored(), one_of(" ;").ignored()));
    item.separated_by(just(' ')).at_least(1).collect::<Vec<Val>>().map(Val::Seq).then_ignore(just(';')).then_ignore(end())
}

/// Not Sync (Recursive is an Rc): arithmetic with nested parentheses.
pub fn arith<'a>() -> impl Parser<'a, &'a str, Val, ExS<'a>> + Clone {
    recursive(|expr| {
        let num = text::int(10)
            .map(|s: &'a str| {
                hook::cb();
                Val::Num(num_of(s))
            })
            .padded();
        let atom = num.or(expr.delimited_by(just('('), just(')')).padded());
        let prod = atom.clone().foldl(one_of("*/").then(atom).repeated(), |a: Val, (op, b): (char, Val)| {
            hook::cb();
            Val::Seq(vec![Val::Tok(op as u8), a, b])
        });
        prod.clone().foldl(one_of("+-").then(prod).repeated(), |a: Val, (op, b): (char, Val)| {
            hook::cb();
            Val::Seq(vec![Val::Tok(op as u8), a, b])
        })
    })
    .then_ignore(end())
}

/// Not Sync: s-expressions through declare/define, memoized atom, recovery on the list body.
pub fn sexp<'a>() -> impl Parser<'a, &'a str, Val, ExS<'a>> + Clone {
    let mut node = Recursive::declare();
    let atom = text::ident()
        .map(|s: &'a str| {
            hook::cb();
            Val::Num(s.len() as u64)
        })
        .memoized();
    let lst = node
        .clone()
        .padded()
        .repeated()
        .collect::<Vec<Val>>()
        .map(Val::Seq)
        .delimited_by(just('('), just(')'))
        .recover_with(via_parser(nested_delimiters('(', ')', [('[', ']')], |sp: SimpleSpan<usize>| {
            hook::cb();
            Val::Span(sp.norm(), Box::new(Val::Fallback(8)))
        })));
    node.define(atom.or(lst));
    node.padded().then_ignore(end())
}

pub const ZOO_NAMES: [&str; 8] = ["memo", "pratt", "rx", "valid", "rx2", "list", "arith", "sexp"];
/// The first ZOO_SYNC grammars are Send + Sync.
pub const ZOO_SYNC: usize = 5;

/// Input pools: accepted, rejected, recovered and memo-heavy strings for each zoo grammar.
pub fn pool(z: usize) -> &'static [&'static str] {
    match z {
        0 => &["aabx", "aaby", "aax", "aay", "bcz", "aabz", "aaaa", "bcbcx", "ay", "", "abbbby"],
        1 => &["1+2*3", "-1^2^3!", "1 + ", "2 * (3", "4!!+5", "1+2+3+4", "^", "7", "12*34", "1*2+3"],
        2 => &["abc 12 x9", "12.5 foo", "abc !", "a1 b2 c3 d4", "", "9.", "zzz", "ab12 cd", "abc 1 d", "a 1.5 zz"],
        3 => &["1 2 3;", "1 300 2;", "1 x 2;", "999 999;", "1 2", ";", "12 @@ 7;", "1 300 2", "999 x"],
        4 => &["12 Abc + 7", "Foo-Bar", "abc", "1 2 3", "", "X * 99 / Yz", "12.5", "12 Ab +", "1 Abc -", "123 A /"],
        5 => &["[a, bc, d]", "[a, (b, c]", "[a,, b]", " [ x1 , y2 , ] ", "[", "[a b]", "[]", "[[a], b]"],
        6 => &["1+2*3", "(1+2)*3", "((((4))))", "1+(2*", "2*/3", "1 + 2 - 3 * 4 / 5", "()", "((1)"],
        _ => &["(a b c)", "(a (b c) d)", "(a [b) c)", "((", "a", "(a (b [c] d) e)", "()", "(a))"],
    }
}
