//! Grammar AST used as *workload* by every engine: generator, well-formedness fix-up,
//! input sampler and printing. The AST is serialisable so replay files are self-contained.

use crate::prng::Rng;
use serde::{Deserialize, Serialize};

#[derive(Clone, Debug, PartialEq, Eq, Serialize, Deserialize)]
pub enum RepMode {
    /// .enumerate().collect::<Vec<(usize, _)>>()
    Enumerate,
    /// .collect_exactly::<[_; 2]>()
    Exactly2,
    Collect,
    Count,
    Unit,
}

#[derive(Clone, Debug, PartialEq, Eq, Serialize, Deserialize)]
pub enum Strat {
    Via(Box<G>),
    SkipUntil(Box<G>, Box<G>),
    SkipRetry(Box<G>, Box<G>),
    /// nested_delimiters(open, close, [(o2, c2)])
    Nested(u8, u8, u8, u8),
}

#[derive(Clone, Debug, PartialEq, Eq, Serialize, Deserialize)]
pub enum G {
    Just(u8),
    JustSeq(Vec<u8>),
    Any,
    OneOf(Vec<u8>),
    NoneOf(Vec<u8>),
    Select(Vec<u8>),
    Custom(u8, u8),
    End,
    Empty,
    Then(Box<G>, Box<G>),
    IgnoreThen(Box<G>, Box<G>),
    ThenIgnore(Box<G>, Box<G>),
    Delim(Box<G>, Box<G>, Box<G>),
    PaddedBy(Box<G>, Box<G>),
    Or(Box<G>, Box<G>),
    Choice(Vec<G>),
    OrNot(Box<G>),
    Not(Box<G>),
    AndIs(Box<G>, Box<G>),
    Rewind(Box<G>),
    Rep { item: Box<G>, min: u32, max: Option<u32>, mode: RepMode },
    Sep { item: Box<G>, sep: Box<G>, min: u32, max: Option<u32>, lead: bool, trail: bool, mode: RepMode },
    Foldl(Box<G>, Box<G>),
    Foldr(Box<G>, Box<G>),
    MapSpan(Box<G>),
    ToSpan(Box<G>),
    StateProbe(Box<G>),
    Filter(Box<G>, u8),
    TryMap(Box<G>, u8),
    Validate(Box<G>, u8),
    Labelled(Box<G>, u8, bool),
    Recover(Box<G>, Strat),
    Memo(Box<G>),
    Ignored(Box<G>),
    To(Box<G>, u8),
    /// recursive(|me| body); RecRef refers to the innermost enclosing Rec.
    Rec(Box<G>),
    RecRef,
    /// Root only.
    Lazy(Box<G>),
    /// a.to_slice() — SliceInput kinds only
    Slice(Box<G>),
    /// any_ref() / select_ref! — BorrowInput kinds only
    AnyRef,
    SelectRef(Vec<u8>),
    /// custom parser reporting InputRef::span_from(cursor..) — ExactSizeInput kinds only
    SpanFrom,
    /// custom parser reporting InputRef::slice_from(cursor..) (the rest of the input) — SliceInput kinds only
    SliceFrom,
    /// custom parser exercising the InputRef API available on every input kind:
    /// kind 0 = peek_maybe then next_maybe; 1 = save / next / save / next / partial rewind;
    /// 2 = inp.parse(sub-parser) + inp.check(sub-parser); consumes >= 1 token when it succeeds
    CustomApi(u8, u8),
    /// context-dependent parsing: a token t, then (with t as context) a configured parser:
    /// (whether the configured parser is used by value or BY REFERENCE, `(&p).configure(..)`, is a
    /// build mode, see build::set_cfg_by_ref), bit1 = ignore_with_ctx
    /// instead of then_with_ctx, bit2 = `just(a).repeated().configure(exactly = sym(t) % 3)` instead
    /// of `just(_).configure(seq = t)`
    CtxPair(u8),
    /// chumsky::text parsers and regex — StrInput kinds only (k >= 9: regex, needs a borrowed slice type):
    /// 0 ascii::ident, 1 unicode::ident, 2 int(10), 3 int(16), 4 digits(36).to_slice(), 5 whitespace().at_least(1),
    /// 6 inline_whitespace().at_least(1), 7 newline(), 8 whitespace() (may match nothing),
    /// 9 regex("[a-c]+[07]*"), 10 regex("[^ \n0]+")
    Text(u8),
    /// a.padded() — InputRef::skip_while on every ValueInput kind whose tokens are characters
    Padded(Box<G>),
    /// less common unary combinators, Un(kind, k, a): 0 map_err, 1 map_err_with_state, 2 try_map_with(k),
    /// 3 with_state(fresh inspector seeded with k), 4 map(Ok).unwrapped(), 5 with_ctx(()), 6 map_ctx
    Un(u8, u8, Box<G>),
    /// FoldWith(true, a, item) = a.foldl_with(item.repeated(), f(span)); FoldWith(false, item, b) = item.repeated().foldr_with(b, f(span))
    FoldWith(bool, Box<G>, Box<G>),
    /// group((a, b, c)) and choice((a, b, c)): the tuple implementations
    Group3(Box<G>, Box<G>, Box<G>),
    Choice3(Box<G>, Box<G>, Box<G>),
    /// inner.nested_in(region): the next n tokens of the outer input are collected and become a NEW
    /// input (a slice of tokens, wrapped the way the outer input is wrapped so that span types agree),
    /// on which `inner` must match completely. Kinds with the `nest` capability only (srcsim).
    Nested(Box<G>, u8),
    /// custom parser over the by-value token API of ValueInput: peek() must equal `a`, then skip(),
    /// then (if the next token is `a` too) next(); reports what it saw and the span
    ValApi(u8),
    /// custom parsers over capability-specific InputRef methods: kind 0 (BorrowInput) = peek_ref then
    /// next_ref (+ a second peek_ref); kind 1 (SliceInput) = consume 1..3 tokens equal to `a`, then
    /// slice(c0..c1) and slice_since(c0..) between cursors taken by the parser itself
    CapApi(u8, u8),
}

pub const N_UN: u8 = 7;

pub const N_TEXT: u8 = 15;

#[derive(Clone, Debug)]
pub struct GenCfg {
    pub nsym: u8,
    pub max_nodes: usize,
    pub max_depth: usize,
    /// any/one_of/none_of/select!/nested_delimiters need ValueInput.
    pub value_prims: bool,
    pub allow_rec: bool,
    pub allow_memo: bool,
    pub allow_recover: bool,
    pub allow_state: bool,
    pub allow_spans: bool,
    pub allow_lookahead: bool,
    pub allow_lazy: bool,
    /// capability-specific nodes (srcsim only): to_slice / any_ref+select_ref / span_from
    pub allow_slice: bool,
    pub allow_borrow: bool,
    pub allow_exact: bool,
    /// text parsers (StrInput kinds only), regex (StrInput kinds with a borrowed slice), padded()
    #[allow(dead_code)]
    pub allow_text: bool,
    pub allow_regex: bool,
    pub allow_pad: bool,
    /// nested_in over a collected region (srcsim, byte kinds with the `nest` capability)
    pub allow_nest: bool,
    /// Swarm mask over combinator families (bit i set = family i enabled in this case).
    pub mask: u64,
}

impl GenCfg {
    pub fn swarm(rng: &mut Rng, value_prims: bool) -> GenCfg {
        GenCfg {
            nsym: rng.range(3, 8) as u8,
            max_nodes: *rng.pick(&[4usize, 8, 12, 20, 30]),
            max_depth: rng.range(3, 8) as usize,
            value_prims,
            allow_rec: rng.chance(1, 4),
            allow_memo: rng.chance(1, 3),
            allow_recover: rng.chance(1, 2),
            allow_state: rng.chance(1, 4),
            allow_spans: rng.chance(3, 4),
            allow_lookahead: rng.chance(1, 2),
            allow_lazy: rng.chance(1, 10),
            allow_slice: false,
            allow_borrow: false,
            allow_exact: false,
            allow_text: false,
            allow_regex: false,
            allow_pad: false,
            allow_nest: false,
            // each family is on with probability ~3/4
            mask: rng.next_u64() | rng.next_u64(),
        }
    }
}

struct Gen<'r> {
    rng: &'r mut Rng,
    cfg: &'r GenCfg,
    left: usize,
    rec_depth: usize,
}

impl<'r> Gen<'r> {
    fn sym(&mut self) -> u8 {
        self.rng.below(self.cfg.nsym as u64) as u8
    }
    fn symset(&mut self) -> Vec<u8> {
        // mostly small sets; now and then a big one that covers most of the alphabet, listed with
        // duplicates and unsorted (as hand-written "all the characters that ..." strings are)
        if self.rng.chance(1, 6) {
            let n = self.rng.range(self.cfg.nsym as u64, 2 * self.cfg.nsym as u64 + 8);
            return (0..n).map(|_| self.sym()).collect();
        }
        let n = self.rng.range(1, (self.cfg.nsym as u64).min(4));
        let mut v: Vec<u8> = (0..n).map(|_| self.sym()).collect();
        v.sort();
        v.dedup();
        v
    }
    fn fam(&self, bit: u32) -> bool {
        self.cfg.mask >> bit & 1 == 1
    }
    fn leaf(&mut self, consuming: bool) -> G {
        loop {
            if self.cfg.allow_text && self.rng.chance(1, 3) {
                // 0..9 text parsers, 9..13 regexes, 13..15 keywords
                let mut k = self.rng.below(N_TEXT as u64) as u8;
                if (9..=12).contains(&k) && !self.cfg.allow_regex {
                    k = 13 + k % 2;
                }
                if k == 8 && consuming {
                    continue;
                }
                return G::Text(k);
            }
            let k = self.rng.below(if self.cfg.allow_borrow || self.cfg.allow_exact || self.cfg.allow_slice { 16 } else { 12 });
            let g = match k {
                12 if self.cfg.allow_borrow && self.rng.chance(1, 2) => G::CapApi(0, self.sym()),
                15 if self.cfg.allow_slice && self.rng.chance(1, 2) => G::CapApi(1, self.sym()),
                12 | 13 if self.cfg.allow_borrow => G::AnyRef,
                14 if self.cfg.allow_borrow => G::SelectRef(self.symset()),
                15 if self.cfg.allow_exact && !consuming => G::SpanFrom,
                15 if self.cfg.allow_slice && !consuming => G::SliceFrom,
                12..=15 => continue,
                0..=3 => G::Just(self.sym()),
                4 => {
                    let n = self.rng.range(2, 3);
                    G::JustSeq((0..n).map(|_| self.sym()).collect())
                }
                5 if self.cfg.value_prims && self.rng.chance(1, 3) => G::CtxPair(self.rng.below(8) as u8),
                5 if self.cfg.value_prims && self.rng.chance(1, 4) => G::ValApi(self.sym()),
                5 if self.cfg.value_prims => G::Any,
                6 if self.cfg.value_prims => G::OneOf(self.symset()),
                7 if self.cfg.value_prims => G::NoneOf(self.symset()),
                8 if self.cfg.value_prims => G::Select(self.symset()),
                9 if self.rng.chance(1, 2) => G::CustomApi(self.rng.below(4) as u8, self.sym()),
                9 => {
                    let a = self.sym();
                    let mut b = self.sym();
                    if b == a {
                        b = (a + 1) % self.cfg.nsym;
                    }
                    G::Custom(a, b)
                }
                10 if !consuming => G::Empty,
                11 if !consuming && self.rng.chance(1, 3) => G::End,
                _ => continue,
            };
            return g;
        }
    }
    fn bx(&mut self, d: usize, consuming: bool) -> Box<G> {
        Box::new(self.gen(d, consuming))
    }
    fn bounds(&mut self) -> (u32, Option<u32>) {
        match self.rng.below(6) {
            0 => (0, None),
            1 => (1, None),
            2 => (self.rng.range(0, 3) as u32, None),
            3 => (0, Some(self.rng.range(0, 4) as u32)),
            4 => {
                let n = self.rng.range(0, 4) as u32;
                (n, Some(n))
            }
            _ => {
                let lo = self.rng.range(0, 3) as u32;
                (lo, Some(lo + self.rng.range(0, 3) as u32))
            }
        }
    }
    fn mode(&mut self) -> RepMode {
        match self.rng.below(10) {
            0..=3 => RepMode::Collect,
            4 | 5 => RepMode::Count,
            6 | 7 => RepMode::Unit,
            8 => RepMode::Enumerate,
            _ => RepMode::Exactly2,
        }
    }
    fn gen(&mut self, d: usize, consuming: bool) -> G {
        if self.left == 0 || d >= self.cfg.max_depth {
            if self.rec_depth > 0 && self.rng.chance(1, 3) {
                return G::RecRef;
            }
            return self.leaf(consuming);
        }
        self.left -= 1;
        for _ in 0..40 {
            let k = self.rng.below(50);
            let g = match k {
                42..=44 if self.fam(11) => G::Un(self.rng.below(N_UN as u64) as u8, self.rng.below(16) as u8, self.bx(d + 1, consuming)),
                45 if self.fam(6) => G::FoldWith(true, self.bx(d + 1, consuming), self.bx(d + 1, true)),
                46 if self.fam(6) => G::FoldWith(false, self.bx(d + 1, true), self.bx(d + 1, consuming)),
                47 if self.fam(0) => {
                    let pick = self.rng.below(3);
                    let mut c = [false; 3];
                    if consuming {
                        c[pick as usize] = true;
                    }
                    G::Group3(self.bx(d + 1, c[0]), self.bx(d + 1, c[1]), self.bx(d + 1, c[2]))
                }
                42..=43 if self.cfg.allow_nest && self.cfg.value_prims && self.rng.chance(1, 2) => {
                    // the inner grammar lives on another input: no reference to an enclosing recursion
                    let saved = std::mem::replace(&mut self.rec_depth, 0);
                    let inner = self.gen(d + 1, false);
                    self.rec_depth = saved;
                    // region length: what one derivation of the inner grammar needs (deterministic in the shape)
                    let mut v = Vec::new();
                    let mut fuel = 60;
                    let mut r2 = Rng::new(digest(&inner));
                    sample(&inner, &mut r2, self.cfg.nsym, &mut v, &mut fuel, None);
                    let n = v.len().min(6) as u8;
                    if consuming && n == 0 {
                        continue;
                    }
                    G::Nested(Box::new(inner), n)
                }
                48..=49 if self.fam(2) => G::Choice3(self.bx(d + 1, consuming), self.bx(d + 1, consuming), self.bx(d + 1, consuming)),
                40..=41 if self.cfg.allow_pad && self.cfg.value_prims => G::Padded(self.bx(d + 1, consuming)),
                0..=2 => return self.leaf(consuming),
                3..=5 if self.fam(0) => {
                    // one side must consume when required
                    let (ca, cb) = if consuming { if self.rng.chance(1, 2) { (true, false) } else { (false, true) } } else { (false, false) };
                    let a = self.bx(d + 1, ca);
                    let b = self.bx(d + 1, cb);
                    match self.rng.below(3) {
                        0 => G::Then(a, b),
                        1 => G::IgnoreThen(a, b),
                        _ => G::ThenIgnore(a, b),
                    }
                }
                6 if self.fam(1) => {
                    let o = Box::new(G::Just(self.sym()));
                    let c = Box::new(G::Just(self.sym()));
                    G::Delim(self.bx(d + 1, false), o, c)
                }
                7 if self.fam(1) => {
                    let pad = if self.rng.chance(1, 2) {
                        Box::new(G::Rep { item: Box::new(G::Just(self.sym())), min: 0, max: None, mode: RepMode::Unit })
                    } else {
                        self.bx(d + 1, false)
                    };
                    G::PaddedBy(self.bx(d + 1, consuming), pad)
                }
                8..=10 if self.fam(2) => G::Or(self.bx(d + 1, consuming), self.bx(d + 1, consuming)),
                11 if self.fam(2) && self.rng.chance(1, 5) => {
                    // a BIG table of literals, as keyword / operator lexers have: 8-14 entries over two or
                    // three symbols, so that many entries are prefixes of others (listed longest-first
                    // most of the time, as such tables are written)
                    let n = self.rng.range(8, 14) as usize;
                    let k = self.rng.range(2, 3) as u8;
                    let base = self.sym();
                    let mut lits: Vec<Vec<u8>> = Vec::new();
                    for _ in 0..n {
                        let len = self.rng.range(1, 3);
                        let mut l = Vec::new();
                        for _ in 0..len {
                            l.push((base + self.rng.below(k as u64) as u8) % self.cfg.nsym);
                        }
                        lits.push(l);
                    }
                    if self.rng.chance(3, 4) {
                        lits.sort_by(|a, b| b.len().cmp(&a.len()));
                    }
                    G::Choice(lits.into_iter().map(|l| if l.len() == 1 { G::Just(l[0]) } else { G::JustSeq(l) }).collect())
                }
                11 if self.fam(2) => {
                    let n = self.rng.range(2, 4);
                    G::Choice((0..n).map(|_| self.gen(d + 1, consuming)).collect())
                }
                12 if !consuming && self.fam(3) => G::OrNot(self.bx(d + 1, false)),
                13 if !consuming && self.cfg.allow_lookahead && self.cfg.value_prims => G::Not(self.bx(d + 1, false)),
                14 if self.cfg.allow_lookahead => G::AndIs(self.bx(d + 1, consuming), self.bx(d + 1, false)),
                15 if !consuming && self.cfg.allow_lookahead => G::Rewind(self.bx(d + 1, false)),
                16..=18 if self.fam(4) => {
                    let (mut min, max) = self.bounds();
                    if consuming && min == 0 {
                        min = 1;
                    }
                    let max = max.map(|m| m.max(min));
                    G::Rep { item: self.bx(d + 1, true), min, max, mode: self.mode() }
                }
                19..=20 if self.fam(5) => {
                    let (mut min, max) = self.bounds();
                    if consuming && min == 0 {
                        min = 1;
                    }
                    let max = max.map(|m| m.max(min));
                    G::Sep {
                        item: self.bx(d + 1, true),
                        sep: if self.rng.chance(3, 4) { Box::new(G::Just(self.sym())) } else { self.bx(d + 1, false) },
                        min,
                        max,
                        lead: self.rng.chance(1, 3),
                        trail: self.rng.chance(1, 3),
                        mode: self.mode(),
                    }
                }
                21 if self.fam(6) => G::Foldl(self.bx(d + 1, consuming), self.bx(d + 1, true)),
                22 if self.fam(6) => G::Foldr(self.bx(d + 1, true), self.bx(d + 1, consuming)),
                24 if self.cfg.allow_slice => G::Slice(self.bx(d + 1, consuming)),
                23..=24 if self.cfg.allow_spans => G::MapSpan(self.bx(d + 1, consuming)),
                25 if self.cfg.allow_slice => G::Slice(self.bx(d + 1, consuming)),
                25 if self.cfg.allow_spans => G::ToSpan(self.bx(d + 1, consuming)),
                26 if self.cfg.allow_state => G::StateProbe(self.bx(d + 1, consuming)),
                27 if self.fam(7) => G::Filter(self.bx(d + 1, consuming), self.rng.below(16) as u8),
                28 if self.fam(7) => G::TryMap(self.bx(d + 1, consuming), self.rng.below(16) as u8),
                29 if self.fam(8) => G::Validate(self.bx(d + 1, consuming), self.rng.below(16) as u8),
                30 if self.fam(9) => G::Labelled(self.bx(d + 1, consuming), self.rng.below(4) as u8, self.rng.chance(1, 3)),
                31..=33 if self.cfg.allow_recover => {
                    let a = self.bx(d + 1, consuming);
                    let s = match self.rng.below(if self.cfg.value_prims { 7 } else { 6 }) {
                        0 | 1 => Strat::Via(self.bx(d + 1, consuming)),
                        2 | 3 => Strat::SkipUntil(self.skipper(), self.until(d, consuming)),
                        4 | 5 => Strat::SkipRetry(self.skipper(), self.until(d, false)),
                        _ => {
                            let o = self.sym();
                            let c = (o + 1) % self.cfg.nsym;
                            let o2 = (o + 2) % self.cfg.nsym;
                            let c2 = (o + 3) % self.cfg.nsym;
                            Strat::Nested(o, c, o2, c2)
                        }
                    };
                    G::Recover(a, s)
                }
                34 if self.cfg.allow_memo => G::Memo(self.bx(d + 1, consuming)),
                35 if self.fam(10) => G::Ignored(self.bx(d + 1, consuming)),
                36 if self.fam(10) => G::To(self.bx(d + 1, consuming), self.rng.below(8) as u8),
                37..=38 if self.cfg.allow_rec && self.rec_depth == 0 && d + 2 < self.cfg.max_depth => {
                    // P = open <body with RecRef> close | leaf   — every self-reference is guarded by `open`.
                    self.rec_depth += 1;
                    let open = Box::new(G::Just(self.sym()));
                    let close = Box::new(G::Just(self.sym()));
                    let inner = self.bx(d + 2, false);
                    self.rec_depth -= 1;
                    let alt = Box::new(self.leaf(true));
                    let body = match self.rng.below(3) {
                        0 => G::Or(Box::new(G::Delim(inner, open, close)), alt),
                        1 => G::Or(alt, Box::new(G::Delim(inner, open, close))),
                        _ => {
                            // sequence-shaped body, no choice at the top:  open (leaf' | P | <sub>)* close
                            // (a failure inside propagates straight through the recursion boundary; the
                            // leaf usually validates, so non-fatal errors are emitted inside the recursion)
                            let k = self.rng.below(16) as u8;
                            let leaf = if self.rng.chance(2, 3) { G::Validate(alt, k) } else { *alt };
                            let mut alts = vec![leaf, G::RecRef];
                            if self.rng.chance(1, 2) {
                                alts.push(*inner);
                            }
                            let item = G::Choice(alts);
                            G::Delim(Box::new(G::Rep { item: Box::new(item), min: 0, max: None, mode: RepMode::Collect }), open, close)
                        }
                    };
                    G::Rec(Box::new(body))
                }
                39 if self.rec_depth > 0 => G::RecRef,
                _ => continue,
            };
            return g;
        }
        self.leaf(consuming)
    }
    fn skipper(&mut self) -> Box<G> {
        // must consume: any token, or a specific token class
        if self.cfg.value_prims && self.rng.chance(2, 3) {
            Box::new(G::Any)
        } else if self.cfg.value_prims {
            Box::new(G::NoneOf(vec![self.sym()]))
        } else {
            // Input-only: custom consumes one token when it matches `a`; use a choice over all symbols
            Box::new(G::Choice((0..self.cfg.nsym).map(G::Just).collect()))
        }
    }
    fn until(&mut self, d: usize, consuming: bool) -> Box<G> {
        match self.rng.below(4) {
            0 if !consuming => Box::new(G::End),
            1 => Box::new(G::Or(Box::new(G::Just(self.sym())), Box::new(if consuming { G::Just(self.sym()) } else { G::End }))),
            2 => self.bx(d + 1, consuming),
            _ => Box::new(G::Just(self.sym())),
        }
    }
}

pub fn generate(rng: &mut Rng, cfg: &GenCfg) -> G {
    let mut gen = Gen { rng, cfg, left: cfg.max_nodes, rec_depth: 0 };
    let mut g = gen.gen(0, false);
    if cfg.allow_lazy && cfg.value_prims && gen.rng.chance(1, 2) {
        g = G::Lazy(Box::new(g));
    }
    fixup(&mut g, cfg.nsym);
    g
}

/// Conservative: true if the parser *may* succeed without consuming a token.
pub fn nullable(g: &G) -> bool {
    use G::*;
    match g {
        Just(_) | Any | OneOf(_) | NoneOf(_) | Select(_) | Custom(..) | AnyRef | SelectRef(_) | CustomApi(..) | CtxPair(_) | ValApi(_) | CapApi(..) => false,
        Text(k) => *k == 8,
        Nested(_, n) => *n == 0,
        JustSeq(v) => v.is_empty(),
        End | Empty | SpanFrom | SliceFrom => true,
        Then(a, b) | IgnoreThen(a, b) | ThenIgnore(a, b) => nullable(a) && nullable(b),
        Delim(i, o, c) => nullable(i) && nullable(o) && nullable(c),
        PaddedBy(a, p) => nullable(a) && nullable(p),
        Or(a, b) => nullable(a) || nullable(b),
        Choice(v) => v.iter().any(nullable),
        OrNot(_) | Not(_) | Rewind(_) => true,
        AndIs(a, _) => nullable(a),
        Rep { item, min, .. } => *min == 0 || nullable(item),
        Sep { item, sep, min, lead, .. } => *min == 0 || (nullable(item) && (nullable(sep) || !*lead || true)),
        Foldl(a, _) => nullable(a),
        Foldr(_, b) => nullable(b),
        FoldWith(true, a, _) => nullable(a),
        FoldWith(false, _, b) => nullable(b),
        Un(_, _, a) => nullable(a),
        Group3(a, b, c) => nullable(a) && nullable(b) && nullable(c),
        Choice3(a, b, c) => nullable(a) || nullable(b) || nullable(c),
        MapSpan(a) | ToSpan(a) | StateProbe(a) | Filter(a, _) | TryMap(a, _) | Validate(a, _) | Labelled(a, ..) | Memo(a) | Ignored(a)
        | To(a, _) | Lazy(a) | Slice(a) | Padded(a) => nullable(a),
        Recover(a, s) => {
            nullable(a)
                || match s {
                    Strat::Via(b) => nullable(b),
                    Strat::SkipUntil(_, u) => nullable(u),
                    Strat::SkipRetry(..) => false,
                    Strat::Nested(..) => false,
                }
        }
        Rec(b) => nullable(b),
        // Rec bodies are forced non-nullable by fixup, so a reference consumes.
        RecRef => false,
    }
}

fn guard(g: &mut G, nsym: u8) {
    if nullable(g) {
        let inner = std::mem::replace(g, G::Empty);
        // deterministic guard symbol derived from the shape, not from the rng (fixup is pure)
        let s = (count_nodes(&inner) % nsym as usize) as u8;
        *g = G::IgnoreThen(Box::new(G::Just(s)), Box::new(inner));
    }
}

/// Enforce the well-formedness every claimed property presupposes: repetition items, skip
/// parsers and recursive bodies consume input (no non-progress loops, no unguarded left recursion).
pub fn fixup(g: &mut G, nsym: u8) {
    use G::*;
    match g {
        Then(a, b) | IgnoreThen(a, b) | ThenIgnore(a, b) | PaddedBy(a, b) | Or(a, b) | AndIs(a, b) => {
            fixup(a, nsym);
            fixup(b, nsym);
        }
        Delim(a, b, c) => {
            fixup(a, nsym);
            fixup(b, nsym);
            fixup(c, nsym);
        }
        Choice(v) => v.iter_mut().for_each(|x| fixup(x, nsym)),
        OrNot(a) | Not(a) | Rewind(a) | MapSpan(a) | ToSpan(a) | StateProbe(a) | Filter(a, _) | TryMap(a, _) | Validate(a, _)
        | Labelled(a, ..) | Memo(a) | Ignored(a) | To(a, _) | Lazy(a) | Slice(a) | Padded(a) => fixup(a, nsym),
        Rep { item, min, max, .. } => {
            fixup(item, nsym);
            guard(item, nsym);
            if let Some(m) = max {
                if *m < *min {
                    *m = *min;
                }
            }
        }
        Sep { item, sep, min, max, .. } => {
            fixup(item, nsym);
            fixup(sep, nsym);
            guard(item, nsym);
            if let Some(m) = max {
                if *m < *min {
                    *m = *min;
                }
            }
        }
        Foldl(a, item) | FoldWith(true, a, item) => {
            fixup(a, nsym);
            fixup(item, nsym);
            guard(item, nsym);
        }
        Un(_, _, a) | Nested(a, _) => fixup(a, nsym),
        Group3(a, b, c) | Choice3(a, b, c) => {
            fixup(a, nsym);
            fixup(b, nsym);
            fixup(c, nsym);
        }
        Foldr(item, b) | FoldWith(false, item, b) => {
            fixup(item, nsym);
            fixup(b, nsym);
            guard(item, nsym);
        }
        Recover(a, s) => {
            fixup(a, nsym);
            match s {
                Strat::Via(b) => fixup(b, nsym),
                Strat::SkipUntil(sk, u) | Strat::SkipRetry(sk, u) => {
                    fixup(sk, nsym);
                    fixup(u, nsym);
                    guard(sk, nsym);
                }
                Strat::Nested(..) => {}
            }
        }
        Rec(b) => {
            fixup(b, nsym);
            guard(b, nsym);
            // left-recursion guard: a RecRef may only be reached after a token was consumed.
            if leftmost_recref(b) {
                let inner = std::mem::replace(&mut **b, G::Empty);
                **b = G::IgnoreThen(Box::new(G::Just(0)), Box::new(inner));
            }
        }
        _ => {}
    }
}

/// Conservative: may a RecRef be invoked before any token has been consumed by this parser?
fn leftmost_recref(g: &G) -> bool {
    use G::*;
    match g {
        RecRef => true,
        Just(_) | JustSeq(_) | Any | OneOf(_) | NoneOf(_) | Select(_) | Custom(..) | End | Empty | AnyRef | SelectRef(_) | SpanFrom | SliceFrom | CustomApi(..) | CtxPair(_) | Text(_) | Nested(..) | ValApi(_) | CapApi(..) => false,
        Then(a, b) | IgnoreThen(a, b) | ThenIgnore(a, b) => leftmost_recref(a) || (nullable(a) && leftmost_recref(b)),
        Delim(i, o, c) => leftmost_recref(o) || (nullable(o) && (leftmost_recref(i) || (nullable(i) && leftmost_recref(c)))),
        PaddedBy(a, p) => leftmost_recref(p) || (nullable(p) && leftmost_recref(a)) || (nullable(p) && nullable(a) && leftmost_recref(p)),
        Or(a, b) | AndIs(a, b) => leftmost_recref(a) || leftmost_recref(b),
        Choice(v) => v.iter().any(leftmost_recref),
        OrNot(a) | Not(a) | Rewind(a) | MapSpan(a) | ToSpan(a) | StateProbe(a) | Filter(a, _) | TryMap(a, _) | Validate(a, _)
        | Labelled(a, ..) | Memo(a) | Ignored(a) | To(a, _) | Lazy(a) | Rec(a) | Slice(a) | Padded(a) => leftmost_recref(a),
        Rep { item, .. } => leftmost_recref(item),
        Sep { item, sep, lead, .. } => leftmost_recref(item) || (*lead && leftmost_recref(sep)),
        Foldl(a, item) | FoldWith(true, a, item) => leftmost_recref(a) || (nullable(a) && leftmost_recref(item)),
        Foldr(item, b) | FoldWith(false, item, b) => leftmost_recref(item) || leftmost_recref(b),
        Un(_, _, a) => leftmost_recref(a),
        Group3(a, b, c) => leftmost_recref(a) || (nullable(a) && (leftmost_recref(b) || (nullable(b) && leftmost_recref(c)))),
        Choice3(a, b, c) => leftmost_recref(a) || leftmost_recref(b) || leftmost_recref(c),
        Recover(a, s) => {
            leftmost_recref(a)
                || match s {
                    Strat::Via(b) => leftmost_recref(b),
                    Strat::SkipUntil(sk, u) | Strat::SkipRetry(sk, u) => leftmost_recref(sk) || leftmost_recref(u),
                    Strat::Nested(..) => false,
                }
        }
    }
}

pub fn children(g: &G) -> Vec<&G> {
    use G::*;
    match g {
        Then(a, b) | IgnoreThen(a, b) | ThenIgnore(a, b) | PaddedBy(a, b) | Or(a, b) | AndIs(a, b) | Foldl(a, b) | Foldr(a, b) => vec![a, b],
        Delim(a, b, c) | Group3(a, b, c) | Choice3(a, b, c) => vec![a, b, c],
        FoldWith(_, a, b) => vec![a, b],
        Un(_, _, a) | Nested(a, _) => vec![a],
        Choice(v) => v.iter().collect(),
        OrNot(a) | Not(a) | Rewind(a) | MapSpan(a) | ToSpan(a) | StateProbe(a) | Filter(a, _) | TryMap(a, _) | Validate(a, _)
        | Labelled(a, ..) | Memo(a) | Ignored(a) | To(a, _) | Lazy(a) | Rec(a) | Slice(a) | Padded(a) => vec![a],
        Rep { item, .. } => vec![item],
        Sep { item, sep, .. } => vec![item, sep],
        Recover(a, s) => match s {
            Strat::Via(b) => vec![a, b],
            Strat::SkipUntil(sk, u) | Strat::SkipRetry(sk, u) => vec![a, sk, u],
            Strat::Nested(..) => vec![a],
        },
        _ => vec![],
    }
}

pub fn children_mut(g: &mut G) -> Vec<&mut G> {
    use G::*;
    match g {
        Then(a, b) | IgnoreThen(a, b) | ThenIgnore(a, b) | PaddedBy(a, b) | Or(a, b) | AndIs(a, b) | Foldl(a, b) | Foldr(a, b) => vec![a, b],
        Delim(a, b, c) | Group3(a, b, c) | Choice3(a, b, c) => vec![a, b, c],
        FoldWith(_, a, b) => vec![a, b],
        Un(_, _, a) | Nested(a, _) => vec![a],
        Choice(v) => v.iter_mut().collect(),
        OrNot(a) | Not(a) | Rewind(a) | MapSpan(a) | ToSpan(a) | StateProbe(a) | Filter(a, _) | TryMap(a, _) | Validate(a, _)
        | Labelled(a, ..) | Memo(a) | Ignored(a) | To(a, _) | Lazy(a) | Rec(a) | Slice(a) | Padded(a) => vec![a],
        Rep { item, .. } => vec![item],
        Sep { item, sep, .. } => vec![item, sep],
        Recover(a, s) => match s {
            Strat::Via(b) => vec![a, b],
            Strat::SkipUntil(sk, u) | Strat::SkipRetry(sk, u) => vec![a, sk, u],
            Strat::Nested(..) => vec![a],
        },
        _ => vec![],
    }
}

pub fn count_nodes(g: &G) -> usize {
    1 + children(g).into_iter().map(count_nodes).sum::<usize>()
}

pub fn contains(g: &G, f: &dyn Fn(&G) -> bool) -> bool {
    f(g) || children(g).into_iter().any(|c| contains(c, f))
}

/// Does the grammar need ValueInput (any/one_of/none_of/select!/nested_delimiters)?
pub fn needs_value_input(g: &G) -> bool {
    contains(g, &|x| {
        matches!(x, G::Any | G::ValApi(_) | G::CapApi(..) | G::CtxPair(_) | G::OneOf(_) | G::NoneOf(_) | G::Select(_) | G::Not(_) | G::Lazy(_) | G::Slice(_) | G::AnyRef | G::SelectRef(_) | G::SpanFrom | G::SliceFrom | G::Text(_) | G::Padded(_) | G::Nested(..)) || matches!(x, G::Recover(_, Strat::Nested(..)))
    })
}

/// Rec nodes only valid at positions where a RecRef inside refers to them; a RecRef outside any Rec is ill-formed.
pub fn well_scoped(g: &G, in_rec: bool) -> bool {
    match g {
        G::RecRef => in_rec,
        G::Rec(b) => !in_rec && well_scoped(b, true),
        G::Lazy(_) if in_rec => false,
        G::Nested(a, _) => well_scoped(a, false),
        _ => children(g).into_iter().all(|c| well_scoped(c, in_rec)),
    }
}

/// Compact S-expression for evidence samples and logs.
pub fn sexpr(g: &G) -> String {
    use G::*;
    fn syms(v: &[u8]) -> String {
        v.iter().map(|s| crate::tok::sym_char(*s)).collect()
    }
    fn c(s: u8) -> char {
        crate::tok::sym_char(s)
    }
    fn bounds(min: u32, max: Option<u32>) -> String {
        match max {
            Some(m) if m == min => format!("={}", min),
            Some(m) => format!("{}..{}", min, m),
            None => format!("{}..", min),
        }
    }
    match g {
        Just(s) => format!("'{}", c(*s)),
        JustSeq(v) => format!("\"{}\"", syms(v)),
        Any => "any".into(),
        OneOf(v) => format!("[{}]", syms(v)),
        NoneOf(v) => format!("[^{}]", syms(v)),
        Select(v) => format!("sel[{}]", syms(v)),
        Custom(a, b) => format!("custom({},{})", c(*a), c(*b)),
        End => "end".into(),
        Empty => "empty".into(),
        Then(a, b) => format!("(then {} {})", sexpr(a), sexpr(b)),
        IgnoreThen(a, b) => format!("(ignore_then {} {})", sexpr(a), sexpr(b)),
        ThenIgnore(a, b) => format!("(then_ignore {} {})", sexpr(a), sexpr(b)),
        Delim(i, o, cl) => format!("(delim {} {} {})", sexpr(o), sexpr(i), sexpr(cl)),
        PaddedBy(a, p) => format!("(padded_by {} {})", sexpr(a), sexpr(p)),
        Or(a, b) => format!("(or {} {})", sexpr(a), sexpr(b)),
        Choice(v) => format!("(choice {})", v.iter().map(sexpr).collect::<Vec<_>>().join(" ")),
        OrNot(a) => format!("(or_not {})", sexpr(a)),
        Not(a) => format!("(not {})", sexpr(a)),
        AndIs(a, b) => format!("(and_is {} {})", sexpr(a), sexpr(b)),
        Rewind(a) => format!("(rewind {})", sexpr(a)),
        Rep { item, min, max, mode } => format!("(rep{{{}}}:{:?} {})", bounds(*min, *max), mode, sexpr(item)),
        Sep { item, sep, min, max, lead, trail, mode } => format!(
            "(sep{{{}}}{}{}:{:?} {} {})",
            bounds(*min, *max),
            if *lead { "L" } else { "" },
            if *trail { "T" } else { "" },
            mode,
            sexpr(item),
            sexpr(sep)
        ),
        Foldl(a, b) => format!("(foldl {} {})", sexpr(a), sexpr(b)),
        Foldr(a, b) => format!("(foldr {} {})", sexpr(a), sexpr(b)),
        MapSpan(a) => format!("(map_span {})", sexpr(a)),
        ToSpan(a) => format!("(to_span {})", sexpr(a)),
        StateProbe(a) => format!("(state {})", sexpr(a)),
        Filter(a, k) => format!("(filter#{} {})", k, sexpr(a)),
        TryMap(a, k) => format!("(try_map#{} {})", k, sexpr(a)),
        Validate(a, k) => format!("(validate#{} {})", k, sexpr(a)),
        Labelled(a, k, ctx) => format!("(label#{}{} {})", k, if *ctx { "ctx" } else { "" }, sexpr(a)),
        Recover(a, s) => match s {
            Strat::Via(b) => format!("(recover {} via {})", sexpr(a), sexpr(b)),
            Strat::SkipUntil(sk, u) => format!("(recover {} skip_until {} {})", sexpr(a), sexpr(sk), sexpr(u)),
            Strat::SkipRetry(sk, u) => format!("(recover {} skip_retry {} {})", sexpr(a), sexpr(sk), sexpr(u)),
            Strat::Nested(o, cl, o2, c2) => format!("(recover {} nested {}{} {}{})", sexpr(a), c(*o), c(*cl), c(*o2), c(*c2)),
        },
        Memo(a) => format!("(memo {})", sexpr(a)),
        Ignored(a) => format!("(ignored {})", sexpr(a)),
        To(a, k) => format!("(to#{} {})", k, sexpr(a)),
        Rec(a) => format!("(rec {})", sexpr(a)),
        RecRef => "$rec".into(),
        Lazy(a) => format!("(lazy {})", sexpr(a)),
        Slice(a) => format!("(to_slice {})", sexpr(a)),
        AnyRef => "any_ref".into(),
        SelectRef(v) => format!("sel_ref[{}]", syms(v)),
        SpanFrom => "span_from".into(),
        SliceFrom => "slice_from".into(),
        CtxPair(f) => format!("ctx_pair#{}", f),
        CustomApi(k, a) => format!("custom_api#{}({})", k, c(*a)),
        ValApi(a) => format!("val_api({})", c(*a)),
        CapApi(k, a) => format!("cap_api#{}({})", k, c(*a)),
        Text(k) => format!("text#{}", ["ascii_ident", "unicode_ident", "int10", "int16", "digits36", "ws1", "inline_ws1", "newline", "ws0", "regex0", "regex1", "regex_wordboundary", "regex_line_anchor", "keyword_ab", "keyword__a7"].get(*k as usize).copied().unwrap_or("?")),
        Padded(a) => format!("(padded {})", sexpr(a)),
        Un(k, n, a) => format!("({}#{} {})", ["map_err", "map_err_with_state", "try_map_with", "with_state", "unwrapped", "with_ctx", "map_ctx"].get(*k as usize).copied().unwrap_or("un?"), n, sexpr(a)),
        FoldWith(true, a, b) => format!("(foldl_with {} {})", sexpr(a), sexpr(b)),
        FoldWith(false, a, b) => format!("(foldr_with {} {})", sexpr(a), sexpr(b)),
        Group3(a, b, c) => format!("(group {} {} {})", sexpr(a), sexpr(b), sexpr(c)),
        Choice3(a, b, c) => format!("(choice3 {} {} {})", sexpr(a), sexpr(b), sexpr(c)),
        Nested(a, n) => format!("(nested_in<{}> {})", n, sexpr(a)),
    }
}

pub fn digest(g: &G) -> u64 {
    crate::prng::fold_bytes(0x6772616d, sexpr(g).as_bytes())
}

/// Random derivation: a token string the grammar plausibly accepts (predicates and lookahead ignored).
pub fn sample(g: &G, rng: &mut Rng, nsym: u8, out: &mut Vec<u8>, fuel: &mut i64, rec: Option<&G>) {
    use G::*;
    *fuel -= 1;
    if *fuel < 0 || out.len() > 4000 {
        return;
    }
    let other = |v: &[u8], rng: &mut Rng| -> u8 {
        for _ in 0..8 {
            let s = rng.below(nsym as u64) as u8;
            if !v.contains(&s) {
                return s;
            }
        }
        v[0]
    };
    match g {
        Just(s) => out.push(*s),
        JustSeq(v) => out.extend_from_slice(v),
        Any | AnyRef => out.push(rng.below(nsym as u64) as u8),
        CtxPair(f) => {
            let t = rng.below(nsym as u64) as u8;
            out.push(t);
            if f & 4 != 0 {
                for _ in 0..(t % 3) {
                    out.push(0);
                }
            } else {
                out.push(t);
            }
        }
        OneOf(v) | Select(v) | SelectRef(v) => out.push(*rng.pick(v)),
        NoneOf(v) => out.push(other(v, rng)),
        Custom(a, _) => out.push(*a),
        CustomApi(3, _) => {
            // the checkpoint shuffle steps over up to five tokens of any kind; often it is the last
            // thing in the input, so that one of its checkpoints is the end of input
            for _ in 0..rng.range(1, 5) {
                out.push(rng.below(nsym as u64) as u8);
            }
        }
        ValApi(a) | CapApi(_, a) => {
            for _ in 0..rng.range(1, 3) {
                out.push(*a);
            }
        }
        CustomApi(k, a) => {
            out.push(*a);
            if *k >= 1 && rng.chance(1, 2) {
                out.push(*a);
            }
        }
        End | Empty | Not(_) | Rewind(_) | SpanFrom | SliceFrom => {}
        Text(k) => {
            let some = |set: &[u8], lo: u64, hi: u64, rng: &mut Rng, out: &mut Vec<u8>| {
                for _ in 0..rng.range(lo, hi) {
                    out.push(*rng.pick(set));
                }
            };
            match k {
                0 | 1 => {
                    some(&[0, 2, 4, 6, 13, 1, 3], 1, 1, rng, out);
                    some(&[0, 1, 2, 3, 4, 6, 7, 11, 12, 13, 15, 22, 23, 16, 17, 20], 0, 4, rng, out);
                }
                2 => {
                    if rng.chance(1, 4) {
                        out.push(11);
                    } else {
                        out.push(12);
                        some(&[11, 12, 23, 18, 19], 0, 3, rng, out);
                    }
                }
                3 => {
                    some(&[12, 0, 2, 4], 1, 1, rng, out);
                    some(&[11, 12, 23, 0, 1, 2, 3, 4, 5, 6, 22, 16, 17, 18, 19], 0, 3, rng, out);
                }
                4 => some(&[11, 12, 23, 0, 2, 4, 6, 7, 15, 22], 1, 4, rng, out),
                5 => some(&[8, 9, 10, 14, 15, 24, 25], 1, 3, rng, out),
                6 => some(&[8, 14], 1, 3, rng, out),
                7 => match rng.below(4) {
                    0 => out.push(9),
                    1 => out.extend_from_slice(&[10, 9]),
                    2 => out.push(10),
                    _ => out.push(*rng.pick(&[14u8, 15, 24, 25])),
                },
                8 => some(&[8, 9, 10, 14, 24, 25], 0, 3, rng, out),
                9 | 11 | 12 => {
                    some(&[0, 2, 4, 1], 1, 3, rng, out);
                    some(&[11, 12], 0, 2, rng, out);
                }
                13 => {
                    // "ab" in either alphabet (bytes: symbols 0 1; chars: symbols 0 2), sometimes a longer identifier
                    out.push(0);
                    out.push(if rng.chance(1, 2) { 1 } else { 2 });
                    if rng.chance(1, 4) {
                        out.push(0);
                    }
                }
                14 => {
                    out.extend_from_slice(&[13, 0, 12]);
                    if rng.chance(1, 4) {
                        out.push(13);
                    }
                }
                _ => some(&[0, 1, 2, 3, 4, 5, 6, 7, 10, 12, 13, 14, 15], 1, 4, rng, out),
            }
        }
        Padded(a) => {
            for _ in 0..rng.below(3) {
                out.push(*rng.pick(&[8u8, 9, 10, 14, 24, 25]));
            }
            sample(a, rng, nsym, out, fuel, rec);
            for _ in 0..rng.below(3) {
                out.push(*rng.pick(&[8u8, 9, 10, 14, 24, 25]));
            }
        }
        Then(a, b) | IgnoreThen(a, b) | ThenIgnore(a, b) => {
            sample(a, rng, nsym, out, fuel, rec);
            sample(b, rng, nsym, out, fuel, rec);
        }
        Delim(i, o, c) => {
            sample(o, rng, nsym, out, fuel, rec);
            sample(i, rng, nsym, out, fuel, rec);
            sample(c, rng, nsym, out, fuel, rec);
        }
        PaddedBy(a, p) => {
            sample(p, rng, nsym, out, fuel, rec);
            sample(a, rng, nsym, out, fuel, rec);
            sample(p, rng, nsym, out, fuel, rec);
        }
        Or(a, b) => sample(if rng.chance(1, 2) { a } else { b }, rng, nsym, out, fuel, rec),
        Choice(v) => {
            let k = rng.usize(v.len());
            sample(&v[k], rng, nsym, out, fuel, rec)
        }
        OrNot(a) => {
            if rng.chance(1, 2) {
                sample(a, rng, nsym, out, fuel, rec)
            }
        }
        AndIs(a, _) => sample(a, rng, nsym, out, fuel, rec),
        Rep { item, min, max, .. } => {
            let hi = max.unwrap_or(min + 3).min(min + 4);
            let n = rng.range(*min as u64, hi.max(*min) as u64);
            for _ in 0..n {
                sample(item, rng, nsym, out, fuel, rec);
            }
        }
        Sep { item, sep, min, max, lead, trail, .. } => {
            let hi = max.unwrap_or(min + 3).min(min + 4);
            let n = rng.range(*min as u64, hi.max(*min) as u64);
            if *lead && rng.chance(1, 2) {
                sample(sep, rng, nsym, out, fuel, rec);
            }
            for i in 0..n {
                if i > 0 {
                    sample(sep, rng, nsym, out, fuel, rec);
                }
                sample(item, rng, nsym, out, fuel, rec);
            }
            if *trail && n > 0 && rng.chance(1, 2) {
                sample(sep, rng, nsym, out, fuel, rec);
            }
        }
        Un(_, _, a) => sample(a, rng, nsym, out, fuel, rec),
        Nested(a, n) => {
            let start = out.len();
            sample(a, rng, nsym, out, fuel, None);
            out.truncate(start + *n as usize);
            while out.len() < start + *n as usize {
                out.push(rng.below(nsym as u64) as u8);
            }
        }
        Group3(a, b, c) => {
            sample(a, rng, nsym, out, fuel, rec);
            sample(b, rng, nsym, out, fuel, rec);
            sample(c, rng, nsym, out, fuel, rec);
        }
        Choice3(a, b, c) => sample([a, b, c][rng.usize(3)], rng, nsym, out, fuel, rec),
        Foldl(a, item) | FoldWith(true, a, item) => {
            sample(a, rng, nsym, out, fuel, rec);
            for _ in 0..rng.below(4) {
                sample(item, rng, nsym, out, fuel, rec);
            }
        }
        Foldr(item, b) | FoldWith(false, item, b) => {
            for _ in 0..rng.below(4) {
                sample(item, rng, nsym, out, fuel, rec);
            }
            sample(b, rng, nsym, out, fuel, rec);
        }
        MapSpan(a) | ToSpan(a) | StateProbe(a) | Filter(a, _) | TryMap(a, _) | Validate(a, _) | Labelled(a, ..) | Memo(a) | Ignored(a)
        | To(a, _) | Lazy(a) | Slice(a) => sample(a, rng, nsym, out, fuel, rec),
        Recover(a, s) => {
            if rng.chance(2, 3) {
                sample(a, rng, nsym, out, fuel, rec)
            } else {
                // produce something the strategy has to deal with
                match s {
                    Strat::Via(b) => sample(b, rng, nsym, out, fuel, rec),
                    Strat::SkipUntil(_, u) | Strat::SkipRetry(_, u) => {
                        for _ in 0..rng.below(4) {
                            out.push(rng.below(nsym as u64) as u8);
                        }
                        sample(u, rng, nsym, out, fuel, rec);
                    }
                    Strat::Nested(o, c, o2, c2) => {
                        out.push(*o);
                        for _ in 0..rng.below(3) {
                            out.push(*o2);
                            out.push(rng.below(nsym as u64) as u8);
                            out.push(*c2);
                        }
                        out.push(*c);
                    }
                }
            }
        }
        Rec(b) => sample(b, rng, nsym, out, fuel, Some(b)),
        RecRef => {
            if let Some(b) = rec {
                // bias towards termination as fuel runs out
                if *fuel > 0 {
                    *fuel -= 8;
                    sample(b, rng, nsym, out, fuel, rec)
                }
            }
        }
    }
}

/// Inputs for one grammar: derivations, mutated derivations and pure noise.
pub fn gen_input(g: &G, rng: &mut Rng, nsym: u8, max_len: usize) -> Vec<u8> {
    gen_input_fuel(g, rng, nsym, max_len, 200)
}

/// `fuel` bounds the derivation (a reference to the enclosing recursion costs 8): 200 gives a few
/// levels of nesting, a few thousand give hundreds.
pub fn gen_input_fuel(g: &G, rng: &mut Rng, nsym: u8, max_len: usize, fuel0: i64) -> Vec<u8> {
    let mut v = Vec::new();
    match rng.below(10) {
        0 => {
            let n = rng.below((max_len as u64).min(12) + 1);
            for _ in 0..n {
                v.push(rng.below(nsym as u64) as u8);
            }
        }
        k => {
            let mut fuel = fuel0;
            sample(g, rng, nsym, &mut v, &mut fuel, None);
            if k >= 5 {
                // mutate: the interesting parses are the nearly-right ones (far failure, then rewind)
                let edits = rng.range(1, 3);
                for _ in 0..edits {
                    match rng.below(4) {
                        0 if !v.is_empty() => {
                            let i = rng.usize(v.len());
                            v.remove(i);
                        }
                        1 => {
                            let i = rng.usize(v.len() + 1);
                            v.insert(i, rng.below(nsym as u64) as u8);
                        }
                        2 if !v.is_empty() => {
                            let i = rng.usize(v.len());
                            v[i] = rng.below(nsym as u64) as u8;
                        }
                        _ => {
                            let cut = rng.usize(v.len() + 1);
                            v.truncate(cut);
                        }
                    }
                }
            }
        }
    }
    v.truncate(max_len);
    v
}

pub fn show_input(v: &[u8]) -> String {
    v.iter().map(|s| crate::tok::sym_char(*s)).collect()
}

/// Capabilities a grammar needs from / an input kind offers: SliceInput, BorrowInput, ExactSizeInput (with
/// index re-basing), StrInput, StrInput with a borrowed slice type (regex).
#[derive(Clone, Copy, Debug, Default, PartialEq, Eq)]
pub struct Need {
    pub slice: bool,
    pub borrow: bool,
    pub exact: bool,
    pub strin: bool,
    pub regex: bool,
    pub nest: bool,
}

impl Need {
    pub fn satisfied_by(&self, have: &Need) -> bool {
        (!self.slice || have.slice) && (!self.borrow || have.borrow) && (!self.exact || have.exact) && (!self.strin || have.strin) && (!self.regex || have.regex) && (!self.nest || have.nest)
    }
}

/// The by-value twin of a grammar: every parser that takes tokens BY REFERENCE (any_ref, select_ref!,
/// the peek_ref/next_ref custom parser) replaced by its by-value counterpart with the same output.
pub fn by_value_twin(g: &G) -> G {
    fn go(g: &mut G) {
        match g {
            G::AnyRef => *g = G::Any,
            G::SelectRef(v) => *g = G::Select(std::mem::take(v)),
            G::CapApi(0, a) => *g = G::CapApi(2, *a),
            _ => {}
        }
        for c in children_mut(g) {
            go(c);
        }
    }
    let mut h = g.clone();
    go(&mut h);
    h
}

pub fn needs_caps(g: &G) -> Need {
    Need {
        slice: contains(g, &|x| matches!(x, G::Slice(_) | G::SliceFrom | G::CapApi(1, _))),
        borrow: contains(g, &|x| matches!(x, G::AnyRef | G::SelectRef(_) | G::CapApi(0, _))),
        exact: contains(g, &|x| matches!(x, G::SpanFrom)),
        strin: contains(g, &|x| matches!(x, G::Text(_))),
        regex: contains(g, &|x| matches!(x, G::Text(k) if (9..=12).contains(k))),
        nest: contains(g, &|x| matches!(x, G::Nested(..))),
    }
}

/// The sync builder (`&dyn Parser` at every node) has no Rec / nested_delimiters: replace them by
/// their body / plain parser, repeatedly (the replacement may itself be one).
pub fn strip_for_sync(g: &mut G) {
    loop {
        match g {
            G::Recover(a, Strat::Nested(..)) => {
                let inner = std::mem::replace(&mut **a, G::Empty);
                *g = inner;
            }
            G::Rec(b) => {
                let inner = std::mem::replace(&mut **b, G::Empty);
                *g = inner;
            }
            G::RecRef => {
                *g = G::Just(0);
            }
            G::Lazy(b) => {
                let inner = std::mem::replace(&mut **b, G::Empty);
                *g = inner;
            }
            // with_state(..) is not built by the sync builder (see build.rs: with_state_no)
            G::Un(3, _, b) => {
                let inner = std::mem::replace(&mut **b, G::Empty);
                *g = inner;
            }
            _ => break,
        }
    }
    for c in children_mut(g) {
        strip_for_sync(c);
    }
}

/// A *sibling* grammar: the same shape, the same allocation sizes, other symbols — every literal,
/// token set and custom-parser symbol is replaced by another symbol below `nsym` whose encoding has
/// the same width for the given token type. Built, used and dropped right before the grammar itself is
/// built on the same thread (histsim's prelude), so that the two grammars' heap data and parser nodes
/// tend to occupy the same addresses one after the other.
pub fn sibling(g: &G, rng: &mut Rng, nsym: u8, is_char: bool) -> G {
    fn width(s: u8, is_char: bool) -> usize {
        if is_char {
            crate::tok::CHARS[s as usize % crate::tok::CHARS.len()].len_utf8()
        } else {
            1
        }
    }
    fn other(s: u8, rng: &mut Rng, nsym: u8, is_char: bool) -> u8 {
        let w = width(s, is_char);
        let cands: Vec<u8> = (0..nsym.max(1)).filter(|c| *c != s && width(*c, is_char) == w).collect();
        if cands.is_empty() {
            s
        } else {
            *rng.pick(&cands)
        }
    }
    fn go(g: &mut G, rng: &mut Rng, nsym: u8, is_char: bool) {
        match g {
            G::Just(s) => *s = other(*s, rng, nsym, is_char),
            G::JustSeq(v) | G::OneOf(v) | G::NoneOf(v) | G::Select(v) | G::SelectRef(v) => {
                for s in v.iter_mut() {
                    *s = other(*s, rng, nsym, is_char);
                }
            }
            G::Custom(a, b) => {
                *a = other(*a, rng, nsym, is_char);
                *b = other(*b, rng, nsym, is_char);
                if a == b {
                    *b = (*a + 1) % nsym.max(2);
                }
            }
            G::CustomApi(_, a) | G::ValApi(a) | G::CapApi(_, a) => *a = other(*a, rng, nsym, is_char),
            G::Recover(_, Strat::Nested(o, c, o2, c2)) => {
                // keep the four delimiters distinct from each other as the generator made them
                let _ = (o, c, o2, c2);
            }
            _ => {}
        }
        for c in children_mut(g) {
            go(c, rng, nsym, is_char);
        }
    }
    let mut h = g.clone();
    go(&mut h, rng, nsym, is_char);
    fixup(&mut h, nsym);
    h
}
