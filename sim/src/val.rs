//! Normalised outputs, errors and outcomes: the unit every oracle compares.

use serde::{Deserialize, Serialize};

/// A normalised span: (context, start, end).
#[derive(Clone, Copy, Debug, PartialEq, Eq, PartialOrd, Ord, Hash, Serialize, Deserialize)]
pub struct Sp(pub u32, pub usize, pub usize);

impl Sp {
    pub const MASKED: Sp = Sp(u32::MAX, usize::MAX, usize::MAX);
}

#[derive(Clone, Debug, PartialEq, Eq, Serialize, Deserialize)]
pub enum Val {
    Unit,
    Tok(u8),
    Seq(Vec<Val>),
    Span(Sp, Box<Val>),
    OnlySpan(Sp),
    /// the span of "the rest of the input" (InputRef::span_from): re-based separately, see srcsim::compare
    RestSpan(Sp),
    Opt(Option<Box<Val>>),
    Num(u64),
    St(u64, u64, Box<Val>),
    Fallback(u8),
}

impl Val {
    pub fn digest(&self) -> u64 {
        use crate::prng::fold;
        match self {
            Val::Unit => 1,
            Val::Tok(t) => fold(2, *t as u64),
            Val::Seq(v) => v.iter().fold(3, |h, x| fold(h, x.digest())),
            Val::Span(s, v) => fold(fold(fold(4, s.1 as u64), s.2 as u64), v.digest()),
            Val::OnlySpan(s) => fold(fold(5, s.1 as u64), s.2 as u64),
            Val::RestSpan(s) => fold(fold(11, s.1 as u64), s.2 as u64),
            Val::Opt(None) => 6,
            Val::Opt(Some(v)) => fold(7, v.digest()),
            Val::Num(n) => fold(8, *n),
            Val::St(a, b, v) => fold(fold(fold(9, *a), *b), v.digest()),
            Val::Fallback(k) => fold(10, *k as u64),
        }
    }
    /// A digest that ignores spans (so predicates in the grammar do not depend on the
    /// representation-specific span re-basing).
    pub fn shape(&self) -> u64 {
        use crate::prng::fold;
        match self {
            Val::Unit => 1,
            Val::Tok(t) => fold(2, *t as u64),
            Val::Seq(v) => v.iter().fold(3, |h, x| fold(h, x.shape())),
            Val::Span(_, v) => fold(4, v.shape()),
            Val::OnlySpan(_) => 5,
            Val::RestSpan(_) => 11,
            Val::Opt(None) => 6,
            Val::Opt(Some(v)) => fold(7, v.shape()),
            Val::Num(n) => fold(8, *n),
            Val::St(a, b, v) => fold(fold(fold(9, *a), *b), v.shape()),
            Val::Fallback(k) => fold(10, *k as u64),
        }
    }
    pub fn spans_mut<'a>(&'a mut self, out: &mut Vec<&'a mut Sp>) {
        match self {
            Val::Seq(v) => {
                for x in v {
                    x.spans_mut(out)
                }
            }
            Val::Span(s, v) => {
                out.push(s);
                v.spans_mut(out)
            }
            Val::OnlySpan(s) => out.push(s),
            Val::Opt(Some(v)) => v.spans_mut(out),
            Val::St(_, _, v) => v.spans_mut(out),
            _ => {}
        }
    }
    /// the RestSpan values only (spans_mut does not visit them)
    pub fn rest_spans_mut<'a>(&'a mut self, out: &mut Vec<&'a mut Sp>) {
        match self {
            Val::Seq(v) => {
                for x in v {
                    x.rest_spans_mut(out)
                }
            }
            Val::Span(_, v) | Val::St(_, _, v) => v.rest_spans_mut(out),
            Val::RestSpan(s) => out.push(s),
            Val::Opt(Some(v)) => v.rest_spans_mut(out),
            _ => {}
        }
    }
    /// Number of tokens mentioned (rough size measure).
    pub fn weight(&self) -> usize {
        match self {
            Val::Seq(v) => 1 + v.iter().map(|x| x.weight()).sum::<usize>(),
            Val::Span(_, v) | Val::St(_, _, v) => 1 + v.weight(),
            Val::Opt(Some(v)) => 1 + v.weight(),
            _ => 1,
        }
    }
}

/// Iterative drop is not needed: Val nesting is bounded by grammar depth (≤ ~40), never by input depth.

#[derive(Clone, Debug, PartialEq, Eq, Serialize, Deserialize)]
pub struct NErr {
    pub span: Sp,
    pub found: Option<u8>,
    /// Sorted, deduplicated Debug renderings of the expected patterns (tokens as symbols).
    pub expected: Vec<String>,
    pub custom: Option<String>,
    pub contexts: Vec<(String, Sp)>,
}

#[derive(Clone, Debug, PartialEq, Eq, Serialize, Deserialize)]
pub enum Outcome {
    Finished { out: Option<Val>, errs: Vec<NErr> },
    /// check(): acceptance + errors only.
    Checked { ok: bool, errs: Vec<NErr> },
    Panicked { msg: String },
}

impl Outcome {
    pub fn digest(&self) -> u64 {
        use crate::prng::{fold, fold_bytes};
        fn errs_d(errs: &[NErr]) -> u64 {
            let mut h = 17;
            for e in errs {
                h = fold(h, e.span.0 as u64);
                h = fold(h, e.span.1 as u64);
                h = fold(h, e.span.2 as u64);
                h = fold(h, e.found.map(|x| x as u64 + 1).unwrap_or(0));
                for x in &e.expected {
                    h = fold_bytes(h, x.as_bytes());
                }
                if let Some(c) = &e.custom {
                    h = fold_bytes(h, c.as_bytes());
                }
                for (l, s) in &e.contexts {
                    h = fold_bytes(h, l.as_bytes());
                    h = fold(h, s.1 as u64);
                    h = fold(h, s.2 as u64);
                }
            }
            h
        }
        match self {
            Outcome::Finished { out, errs } => {
                fold(fold(100, out.as_ref().map(|v| v.digest()).unwrap_or(0)), errs_d(errs))
            }
            Outcome::Checked { ok, errs } => fold(fold(200, *ok as u64), errs_d(errs)),
            Outcome::Panicked { msg } => fold_bytes(300, msg.as_bytes()),
        }
    }
    pub fn spans_mut<'a>(&'a mut self, out: &mut Vec<&'a mut Sp>) {
        match self {
            Outcome::Finished { out: o, errs } => {
                if let Some(v) = o {
                    v.spans_mut(out);
                }
                for e in errs {
                    out.push(&mut e.span);
                    for (_, s) in &mut e.contexts {
                        out.push(s);
                    }
                }
            }
            Outcome::Checked { errs, .. } => {
                for e in errs {
                    out.push(&mut e.span);
                    for (_, s) in &mut e.contexts {
                        out.push(s);
                    }
                }
            }
            Outcome::Panicked { .. } => {}
        }
    }
    pub fn rest_spans_mut<'a>(&'a mut self, out: &mut Vec<&'a mut Sp>) {
        if let Outcome::Finished { out: Some(v), .. } = self {
            v.rest_spans_mut(out);
        }
    }
    pub fn map_spans(&mut self, f: &dyn Fn(Sp) -> Sp) {
        let mut v = Vec::new();
        self.spans_mut(&mut v);
        for s in v {
            *s = f(*s);
        }
    }
    pub fn errs(&self) -> &[NErr] {
        match self {
            Outcome::Finished { errs, .. } | Outcome::Checked { errs, .. } => errs,
            Outcome::Panicked { .. } => &[],
        }
    }
    pub fn accepted(&self) -> Option<bool> {
        match self {
            Outcome::Finished { out, .. } => Some(out.is_some()),
            Outcome::Checked { ok, .. } => Some(*ok),
            Outcome::Panicked { .. } => None,
        }
    }
    pub fn is_panic(&self) -> bool {
        matches!(self, Outcome::Panicked { .. })
    }
    /// Reduce a parse outcome to what check() can observe.
    pub fn to_checked(&self) -> Outcome {
        match self {
            Outcome::Finished { out, errs } => Outcome::Checked { ok: out.is_some(), errs: errs.clone() },
            o => o.clone(),
        }
    }
    /// Keep only what C10 names: acceptance, output and error positions.
    pub fn positions_only(&self) -> Outcome {
        let strip = |errs: &[NErr]| {
            errs.iter()
                .map(|e| NErr { span: e.span, found: None, expected: vec![], custom: None, contexts: vec![] })
                .collect::<Vec<_>>()
        };
        match self {
            Outcome::Finished { out, errs } => Outcome::Finished { out: out.clone(), errs: strip(errs) },
            Outcome::Checked { ok, errs } => Outcome::Checked { ok: *ok, errs: strip(errs) },
            o => o.clone(),
        }
    }
    pub fn brief(&self) -> String {
        let s = format!("{:?}", self);
        if s.len() > 600 {
            let mut cut = 600;
            while !s.is_char_boundary(cut) {
                cut -= 1;
            }
            format!("{}…", &s[..cut])
        } else {
            s
        }
    }
}
