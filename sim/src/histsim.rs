//! C13 (sequential half) — parsers are pure values: operation *histories* on one parser value.
//!
//! A case is a history of operations over a pool of live *handles* that all derive from one
//! grammar value: parse / check (with and without state) through the value itself, clones, `&`,
//! `Box`, `Rc`, `Arc`, `boxed()`, `Either`, stacks of those, and `Cache::get()`; clone / drop /
//! move of handles (including the original); and the fault of this engine, an *aborted parse*:
//! a panic injected from a user callback at the k-th callback of one parse (a crash at an
//! arbitrary instant of one operation), caught by the caller, after which the same value is used
//! again.
//!
//! Oracle: every operation returns what a brand-new parser returns for the same input (same abort
//! point). References are computed on a pristine thread before the history starts and again on a
//! second pristine thread after it ended; both must agree with each other and with every operation.

use crate::build::{build, Ex, BP};
use crate::gram::{self, GenCfg, G};
use crate::hook;
use crate::norm::{exec, PMode};
use crate::pool::{Acc, Engine, Violation};
use crate::prng::{fold, fold_bytes, Rng};
use crate::sources::{Hint, ReaderPolicy, SimIter, SimReader};
use crate::tok::{SpanX, Tok, CHARS};
use crate::val::{Outcome, Val};
use crate::zoo;
use chumsky::cache::{Cache, Cached};
use chumsky::input::{IoInput, Stream};
use chumsky::prelude::*;
use chumsky::Boxed;
use either::Either;
use serde::{Deserialize, Serialize};
use serde_json::{json, Value};
use std::collections::BTreeMap;
use std::rc::Rc;
use std::sync::Arc;

// ---------------------------------------------------------------------------------------------
// Handles

pub const N_FORMS: u8 = 16;
pub const FORM_NAMES: [&str; 16] = [
    "value", "Box", "Rc", "Arc", "boxed()", "Either::Left", "Either::Right", "Rc<Box>", "Box<Arc<Either<_,Rc>>>", "Either<boxed(),_>", "Arc<boxed()>", "Box<Box<Box>>",
    "Box<dyn Parser>", "Rc<dyn Parser>", "Arc<dyn Parser>", "Either<Either<Either<_,_>,_>,_>",
];
/// `form` value of operations that go through `Cache::get()`
pub const CACHE_FORM: usize = 99;
type DynP<'a, I> = dyn Parser<'a, I, Val, Ex<'a, I>> + 'a;

pub enum HK<'a, I: Input<'a>, P>
where
    I::Token: Tok,
    I::Span: SpanX,
{
    Own(P),
    BoxP(Box<P>),
    RcP(Rc<P>),
    ArcP(Arc<P>),
    Bx(Boxed<'a, 'a, I, Val, Ex<'a, I>>),
    EL(Either<P, P>),
    ER(Either<P, P>),
    RcBox(Rc<Box<P>>),
    BoxArcE(Box<Arc<Either<P, Rc<P>>>>),
    EBx(Either<Boxed<'a, 'a, I, Val, Ex<'a, I>>, P>),
    ArcBx(Arc<Boxed<'a, 'a, I, Val, Ex<'a, I>>>),
    Box3(Box<Box<Box<P>>>),
    /// trait objects coerced from the concrete parser (used through `&dyn Parser`: `Box<dyn ..>` etc.
    /// are not parsers themselves); the concrete value is kept next to it only to derive new handles
    BoxDyn(Rc<Box<DynP<'a, I>>>, P),
    RcDyn(Rc<DynP<'a, I>>, P),
    ArcDyn(Arc<DynP<'a, I>>, P),
    E3(Either<Either<Either<P, P>, P>, P>),
}

impl<'a, I: Input<'a>, P: Clone> Clone for HK<'a, I, P>
where
    I::Token: Tok,
    I::Span: SpanX,
{
    fn clone(&self) -> Self {
        match self {
            HK::Own(p) => HK::Own(p.clone()),
            HK::BoxP(p) => HK::BoxP(p.clone()),
            HK::RcP(p) => HK::RcP(p.clone()),
            HK::ArcP(p) => HK::ArcP(p.clone()),
            HK::Bx(p) => HK::Bx(p.clone()),
            HK::EL(p) => HK::EL(p.clone()),
            HK::ER(p) => HK::ER(p.clone()),
            HK::RcBox(p) => HK::RcBox(p.clone()),
            HK::BoxArcE(p) => HK::BoxArcE(p.clone()),
            HK::EBx(p) => HK::EBx(p.clone()),
            HK::ArcBx(p) => HK::ArcBx(p.clone()),
            HK::Box3(p) => HK::Box3(p.clone()),
            HK::BoxDyn(d, p) => HK::BoxDyn(d.clone(), p.clone()),
            HK::RcDyn(d, p) => HK::RcDyn(d.clone(), p.clone()),
            HK::ArcDyn(d, p) => HK::ArcDyn(d.clone(), p.clone()),
            HK::E3(p) => HK::E3(p.clone()),
        }
    }
}

impl<'a, I, P> HK<'a, I, P>
where
    I: Input<'a>,
    I::Token: Tok,
    I::Span: SpanX,
    P: Parser<'a, I, Val, Ex<'a, I>> + Clone + 'a,
{
    pub fn form(&self) -> usize {
        match self {
            HK::Own(_) => 0,
            HK::BoxP(_) => 1,
            HK::RcP(_) => 2,
            HK::ArcP(_) => 3,
            HK::Bx(_) => 4,
            HK::EL(_) => 5,
            HK::ER(_) => 6,
            HK::RcBox(_) => 7,
            HK::BoxArcE(_) => 8,
            HK::EBx(_) => 9,
            HK::ArcBx(_) => 10,
            HK::Box3(_) => 11,
            HK::BoxDyn(..) => 12,
            HK::RcDyn(..) => 13,
            HK::ArcDyn(..) => 14,
            HK::E3(_) => 15,
        }
    }
    /// A clone of the underlying parser value, where one is reachable.
    fn inner(&self) -> Option<P> {
        Some(match self {
            HK::Own(p) => p.clone(),
            HK::BoxP(p) => (**p).clone(),
            HK::RcP(p) => (**p).clone(),
            HK::ArcP(p) => (**p).clone(),
            HK::EL(Either::Left(p)) | HK::EL(Either::Right(p)) | HK::ER(Either::Left(p)) | HK::ER(Either::Right(p)) => p.clone(),
            HK::RcBox(p) => (***p).clone(),
            HK::BoxArcE(p) => match &***p {
                Either::Left(p) => p.clone(),
                Either::Right(r) => (**r).clone(),
            },
            HK::EBx(Either::Right(p)) => p.clone(),
            HK::Box3(p) => (****p).clone(),
            HK::BoxDyn(_, p) | HK::RcDyn(_, p) | HK::ArcDyn(_, p) => p.clone(),
            HK::E3(e) => match e {
                Either::Right(p) | Either::Left(Either::Right(p)) | Either::Left(Either::Left(Either::Left(p))) | Either::Left(Either::Left(Either::Right(p))) => p.clone(),
            },
            HK::Bx(_) | HK::ArcBx(_) | HK::EBx(Either::Left(_)) => return None,
        })
    }
    fn inner_boxed(&self) -> Boxed<'a, 'a, I, Val, Ex<'a, I>> {
        match self {
            HK::Bx(b) => b.clone(),
            HK::ArcBx(b) => (**b).clone(),
            HK::EBx(Either::Left(b)) => b.clone(),
            other => other.inner().expect("inner").boxed(),
        }
    }
    /// Derive a new handle of the given form from this one.
    pub fn derive(&self, form: u8, flip: bool) -> HK<'a, I, P> {
        match self.inner() {
            Some(p) => match form % N_FORMS {
                0 => HK::Own(p),
                1 => HK::BoxP(Box::new(p)),
                2 => HK::RcP(Rc::new(p)),
                3 => HK::ArcP(Arc::new(p)),
                4 => HK::Bx(p.boxed()),
                5 => HK::EL(Either::Left(p)),
                6 => HK::ER(Either::Right(p)),
                7 => HK::RcBox(Rc::new(Box::new(p))),
                8 => HK::BoxArcE(Box::new(Arc::new(if flip { Either::Left(p) } else { Either::Right(Rc::new(p)) }))),
                9 => HK::EBx(if flip { Either::Left(p.boxed()) } else { Either::Right(p) }),
                10 => HK::ArcBx(Arc::new(p.boxed())),
                11 => HK::Box3(Box::new(Box::new(Box::new(p)))),
                12 => HK::BoxDyn(Rc::new(Box::new(p.clone()) as Box<DynP<'a, I>>), p),
                13 => HK::RcDyn(Rc::new(p.clone()) as Rc<DynP<'a, I>>, p),
                14 => HK::ArcDyn(Arc::new(p.clone()) as Arc<DynP<'a, I>>, p),
                _ => HK::E3(if flip { Either::Left(Either::Left(Either::Right(p))) } else { Either::Left(Either::Right(p)) }),
            },
            None => {
                let b = self.inner_boxed();
                match form % 3 {
                    0 => HK::Bx(b),
                    1 => HK::ArcBx(Arc::new(b)),
                    _ => HK::EBx(Either::Left(b)),
                }
            }
        }
    }
    /// One operation through this handle (static dispatch on the concrete wrapper type;
    /// `refs` adds `&` / `&&` on top).
    pub fn run<F: FnOnce() -> I>(&self, mk: F, mode: PMode, state_seed: u64, refs: u8) -> Outcome {
        macro_rules! go {
            ($p:expr) => {
                match refs {
                    0 => exec::<I, _, _>($p, mk, mode, state_seed),
                    1 => exec::<I, _, _>(&$p, mk, mode, state_seed),
                    _ => exec::<I, _, _>(&&$p, mk, mode, state_seed),
                }
            };
        }
        match self {
            HK::Own(p) => go!(p),
            HK::BoxP(p) => go!(p),
            HK::RcP(p) => go!(p),
            HK::ArcP(p) => go!(p),
            HK::Bx(p) => go!(p),
            HK::EL(p) => go!(p),
            HK::ER(p) => go!(p),
            HK::RcBox(p) => go!(p),
            HK::BoxArcE(p) => go!(p),
            HK::EBx(p) => go!(p),
            HK::ArcBx(p) => go!(p),
            HK::Box3(p) => go!(p),
            HK::BoxDyn(d, _) => {
                let r: &DynP<'a, I> = &***d;
                go!(&r)
            }
            HK::RcDyn(d, _) => {
                let r: &DynP<'a, I> = &**d;
                go!(&r)
            }
            HK::ArcDyn(d, _) => {
                let r: &DynP<'a, I> = &**d;
                go!(&r)
            }
            HK::E3(p) => go!(p),
        }
    }
}

// ---------------------------------------------------------------------------------------------
// Histories

pub const MODES: [PMode; 4] = [PMode::Parse, PMode::Check, PMode::ParseState, PMode::CheckState];

#[derive(Clone, Debug, PartialEq, Eq, Serialize, Deserialize)]
pub enum Op {
    /// parse input `inp` through handle `h`; `abort` = k > 0 injects a panic at the k-th user callback
    Parse { h: usize, inp: usize, mode: PMode, refs: u8, abort: u64 },
    /// re-entrant use: while the parse (h, inp, mode) is inside its `at`-th user callback, a second
    /// parse (h2, inp2, mode2) runs to completion on the same thread, then the first one continues
    Reenter { h: usize, inp: usize, mode: PMode, at: u64, h2: usize, inp2: usize, mode2: PMode },
    /// new handle of `form` derived from handle `h`
    Derive { h: usize, form: u8, flip: bool },
    /// plain clone of the handle (same wrapper form)
    CloneH { h: usize },
    /// `n` further clones of the handle, all kept alive until the end of the history (how many
    /// copies of a parser exist must not matter)
    CloneMany { h: usize, n: u32 },
    DropH { h: usize },
    /// relocate the handle value (its address changes; for unboxed parsers every node moves)
    MoveH { h: usize },
    Nop,
}

fn state_seed(inp: usize) -> u64 {
    0x51 + inp as u64 * 7
}

pub type RefKey = (usize, u8, u64);

fn mode_ix(m: PMode) -> u8 {
    MODES.iter().position(|x| *x == m).unwrap() as u8
}

#[derive(Clone, Debug)]
pub struct OpResult {
    /// true for the inner operation of a `Reenter`
    pub nested: bool,
    pub op: usize,
    pub key: RefKey,
    pub form: usize,
    pub outcome: Outcome,
    pub abort_fired: bool,
}

/// Execute a history on handles derived from `root`. Operations on dead / missing slots are
/// skipped, so every op list is executable (the minimiser relies on that).
pub fn run_history<'a, I, P>(root: P, mk: &dyn Fn(usize) -> I, npool: usize, ops: &[Op]) -> Vec<OpResult>
where
    I: Input<'a>,
    I::Token: Tok,
    I::Span: SpanX,
    P: Parser<'a, I, Val, Ex<'a, I>> + Clone + 'a,
{
    let mut slots: Vec<Option<Box<HK<'a, I, P>>>> = vec![Some(Box::new(HK::Own(root)))];
    let mut crowd: Vec<HK<'a, I, P>> = Vec::new();
    let mut out = Vec::new();
    for (i, op) in ops.iter().enumerate() {
        match op {
            Op::Parse { h, inp, mode, refs, abort } => {
                if *inp >= npool {
                    continue;
                }
                if let Some(Some(hk)) = slots.get(*h) {
                    hook::begin_op(*abort, u64::MAX, u64::MAX);
                    hook::begin_ticks(u64::MAX);
                    let o = hk.run(|| mk(*inp), *mode, state_seed(*inp), *refs);
                    let (_, _, fired) = hook::end_op();
                    hook::end_ticks();
                    out.push(OpResult { nested: false, op: i, key: (*inp, mode_ix(*mode), *abort), form: hk.form(), outcome: o, abort_fired: fired });
                }
            }
            Op::Reenter { h, inp, mode, at, h2, inp2, mode2 } => {
                if *inp >= npool || *inp2 >= npool {
                    continue;
                }
                if let (Some(Some(hk)), Some(Some(hk2))) = (slots.get(*h), slots.get(*h2)) {
                    let inner: std::cell::RefCell<Option<Outcome>> = std::cell::RefCell::new(None);
                    {
                        let inner_ref = &inner;
                        let f = move || {
                            hook::begin_op(0, u64::MAX, u64::MAX);
                            hook::begin_ticks(u64::MAX);
                            let o = hk2.run(|| mk(*inp2), *mode2, state_seed(*inp2), 0);
                            hook::end_op();
                            hook::end_ticks();
                            *inner_ref.borrow_mut() = Some(o);
                        };
                        let b: Box<dyn FnOnce() + '_> = Box::new(f);
                        // SAFETY: the closure is taken or cleared before anything it borrows goes out of scope
                        let b: Box<dyn FnOnce() + 'static> = unsafe { std::mem::transmute(b) };
                        hook::set_reenter(*at, b);
                    }
                    hook::begin_op(0, u64::MAX, u64::MAX);
                    hook::begin_ticks(u64::MAX);
                    let o = hk.run(|| mk(*inp), *mode, state_seed(*inp), 0);
                    hook::end_op();
                    hook::end_ticks();
                    hook::clear_reenter();
                    let form = hk.form();
                    let form2 = hk2.form();
                    if let Some(io) = inner.into_inner() {
                        out.push(OpResult { nested: true, op: i, key: (*inp2, mode_ix(*mode2), 0), form: form2, outcome: io, abort_fired: false });
                    }
                    out.push(OpResult { nested: false, op: i, key: (*inp, mode_ix(*mode), 0), form, outcome: o, abort_fired: false });
                }
            }
            Op::Derive { h, form, flip } => {
                if let Some(Some(hk)) = slots.get(*h) {
                    let n = hk.derive(*form, *flip);
                    slots.push(Some(Box::new(n)));
                }
            }
            Op::CloneH { h } => {
                if let Some(Some(hk)) = slots.get(*h) {
                    let n: HK<'a, I, P> = (**hk).clone();
                    slots.push(Some(Box::new(n)));
                }
            }
            Op::CloneMany { h, n } => {
                if let Some(Some(hk)) = slots.get(*h) {
                    for _ in 0..(*n).min(5000) {
                        crowd.push((**hk).clone());
                    }
                }
            }
            Op::DropH { h } => {
                if let Some(s) = slots.get_mut(*h) {
                    *s = None;
                }
            }
            Op::MoveH { h } => {
                if let Some(s) = slots.get_mut(*h) {
                    if let Some(old) = s.take() {
                        // the new cell is allocated while the old one is still alive, so the value
                        // (for unboxed parsers: every node, memoized ones included) gets a new address
                        let mut nb = Box::<HK<'a, I, P>>::new_uninit();
                        nb.write(*old);
                        *s = Some(unsafe { nb.assume_init() });
                    }
                }
            }
            Op::Nop => {}
        }
    }
    out
}

/// Reference outcomes from brand-new parsers (one per key), with callback counts.
pub fn references<'a, I, P>(fresh: &dyn Fn() -> P, mk: &dyn Fn(usize) -> I, keys: &[RefKey], tick_cap: u64) -> BTreeMap<RefKey, (Outcome, u64)>
where
    I: Input<'a>,
    I::Token: Tok,
    I::Span: SpanX,
    P: Parser<'a, I, Val, Ex<'a, I>> + Clone + 'a,
{
    let mut m = BTreeMap::new();
    for k in keys {
        let (inp, mi, abort) = *k;
        let p = fresh();
        hook::begin_op(abort, u64::MAX, u64::MAX);
        hook::begin_ticks(tick_cap);
        let o = exec::<I, _, _>(&p, || mk(inp), MODES[mi as usize], state_seed(inp));
        let (cbs, _, _) = hook::end_op();
        hook::end_ticks();
        m.insert(*k, (o, cbs));
    }
    m
}

fn on_pristine_thread<T: Send>(f: impl FnOnce() -> T + Send) -> T {
    std::thread::scope(|s| {
        std::thread::Builder::new()
            .stack_size(16 << 20)
            .spawn_scoped(s, move || {
                // panic hook is process-global; panic capture is thread-local
                f()
            })
            .expect("spawn pristine thread")
            .join()
            .expect("pristine thread panicked (harness)")
    })
}

pub struct GenOpsCfg {
    pub max_ops: usize,
    pub p_abort: (u64, u64),
}

/// Generate a history. `cbs(inp, mode)` = number of callbacks of the un-aborted reference parse.
pub fn gen_ops(rng: &mut Rng, npool: usize, cfg: &GenOpsCfg, cbs: &dyn Fn(usize, u8) -> u64) -> Vec<Op> {
    let n = rng.range(2, cfg.max_ops as u64) as usize;
    let mut live: Vec<bool> = vec![true];
    let mut ops = Vec::new();
    let pick_live = |rng: &mut Rng, live: &Vec<bool>| -> Option<usize> {
        let l: Vec<usize> = live.iter().enumerate().filter(|(_, b)| **b).map(|(i, _)| i).collect();
        if l.is_empty() {
            None
        } else {
            Some(*rng.pick(&l))
        }
    };
    // favourite input: re-parsing the same input after different ones is where leaks show
    let fav = rng.usize(npool);
    for _ in 0..n {
        let Some(h) = pick_live(rng, &live) else { break };
        match rng.below(26) {
            24 | 25 => {
                let inp = rng.usize(npool);
                let mode = *rng.pick(&[PMode::Parse, PMode::Parse, PMode::Check, PMode::ParseState]);
                let c = cbs(inp, mode_ix(mode));
                if c > 0 {
                    let live_ix: Vec<usize> = live.iter().enumerate().filter(|(_, b)| **b).map(|(i, _)| i).collect();
                    let h2 = if rng.chance(2, 3) { h } else { *rng.pick(&live_ix) };
                    let inp2 = if rng.chance(1, 2) { inp } else { rng.usize(npool) };
                    let mode2 = *rng.pick(&[PMode::Parse, PMode::Parse, PMode::Check]);
                    ops.push(Op::Reenter { h, inp, mode, at: rng.range(1, c), h2, inp2, mode2 });
                }
            }
            0..=10 => {
                let inp = if rng.chance(1, 3) { fav } else { rng.usize(npool) };
                let mode = *rng.pick(&[PMode::Parse, PMode::Parse, PMode::Parse, PMode::Check, PMode::Check, PMode::ParseState, PMode::CheckState]);
                let refs = *rng.pick(&[0u8, 0, 0, 1, 2]);
                let c = cbs(inp, mode_ix(mode));
                let abort = if c > 0 && rng.chance(cfg.p_abort.0, cfg.p_abort.1) { rng.range(1, c) } else { 0 };
                ops.push(Op::Parse { h, inp, mode, refs, abort });
            }
            11..=14 | 20..=23 => {
                ops.push(Op::Derive { h, form: rng.below(N_FORMS as u64) as u8, flip: rng.chance(1, 2) });
                live.push(true);
            }
            15 => {
                ops.push(Op::CloneH { h });
                live.push(true);
            }
            16 => {
                if rng.chance(1, 3) {
                    ops.push(Op::CloneMany { h, n: *rng.pick(&[16u32, 300, 1100, 2500]) });
                } else {
                    ops.push(Op::CloneH { h });
                    live.push(true);
                }
            }
            17 | 18 => {
                // never drop the last live handle unless this is the end anyway
                if live.iter().filter(|b| **b).count() > 1 {
                    ops.push(Op::DropH { h });
                    live[h] = false;
                }
            }
            _ => ops.push(Op::MoveH { h }),
        }
    }
    // always end with a parse of the favourite input on some live handle
    if let Some(h) = pick_live(rng, &live) {
        ops.push(Op::Parse { h, inp: fav, mode: PMode::Parse, refs: 0, abort: 0 });
    }
    ops
}

pub fn keys_of(ops: &[Op]) -> Vec<RefKey> {
    let mut v: Vec<RefKey> = ops
        .iter()
        .flat_map(|o| match o {
            Op::Parse { inp, mode, abort, .. } => vec![(*inp, mode_ix(*mode), *abort)],
            Op::Reenter { inp, mode, inp2, mode2, .. } => vec![(*inp, mode_ix(*mode), 0), (*inp2, mode_ix(*mode2), 0)],
            _ => vec![],
        })
        .collect();
    v.sort();
    v.dedup();
    v
}

// ---------------------------------------------------------------------------------------------
// Case description (self-contained: this is also the replay document)

#[derive(Clone, Copy, Debug, PartialEq, Eq, Serialize, Deserialize)]
pub enum InKind {
    Slice,
    Str,
    Stream,
    Io,
}

#[derive(Clone, Debug, PartialEq, Eq, Serialize, Deserialize)]
pub enum Subject {
    /// dynamically generated grammar, built as `Boxed` for the given input kind
    Dyn { grammar: G, kind: InKind },
    /// statically typed zoo grammar over &str
    Zoo { z: usize },
    /// `Cache<C>` whose `make_parser` builds the grammar at any lifetime; inputs are short-lived
    CacheDyn { grammar: G },
    /// the same grammar composed through `&dyn Parser` references at every node (no `Boxed`
    /// anywhere), against the reference built with `boxed()` at every node: the two erasure
    /// wrappers must be equally transparent
    DynRef { grammar: G },
    /// statically typed zoo grammar behind a `Cache`, inputs in short-lived / reused buffers
    ZooCache { z: usize },
}

#[derive(Clone, Debug, Serialize, Deserialize)]
pub struct HistCase {
    pub subject: Subject,
    /// token symbols (Dyn / CacheDyn) — for Zoo the pool is text
    pub pool_syms: Vec<Vec<u8>>,
    pub pool_text: Vec<String>,
    pub ops: Vec<Op>,
    pub reader_seed: u64,
    /// reference phases on brand-new OS threads
    pub pristine: bool,
    /// the parser under test is built from clones of every combinator node (generated subjects)
    #[serde(default)]
    pub clone_nodes: bool,
    /// A sibling grammar (same shape and allocation sizes, other symbols) that is built, run over the
    /// pool and dropped on the history's thread right before the subject itself is built there: state
    /// kept per thread or per process and keyed by an address (of a parser node, of a token set, of a
    /// literal) is then stale for the subject. References are computed on pristine threads.
    #[serde(default)]
    pub prelude: Option<G>,
}

#[derive(Clone, Debug, Serialize, Deserialize)]
pub struct Replay {
    pub engine: String,
    pub property: String,
    pub seed: u64,
    pub case: u64,
    pub class: String,
    pub subject_shown: String,
    pub pool_shown: Vec<String>,
    pub spec: HistCase,
    pub failing_op: Option<usize>,
    pub expected: Option<Outcome>,
    pub observed: Option<Outcome>,
}

#[derive(Debug)]
pub struct Mismatch {
    pub class: String,
    pub op: Option<usize>,
    pub expected: Outcome,
    pub observed: Outcome,
}

pub struct Ran {
    pub mismatch: Option<Mismatch>,
    pub results: Vec<OpResult>,
    pub refs: BTreeMap<RefKey, (Outcome, u64)>,
    pub discarded: bool,
}

const REF_TICK_CAP: u64 = 200_000;

fn judge(refs: &BTreeMap<RefKey, (Outcome, u64)>, refs2: &BTreeMap<RefKey, (Outcome, u64)>, results: &[OpResult]) -> Option<Mismatch> {
    for r in results {
        if let Some((exp, _)) = refs.get(&r.key) {
            if *exp != r.outcome {
                let class = if r.nested {
                    "history-mismatch-in-reentrant-parse"
                } else if r.outcome.is_panic() && !exp.is_panic() {
                    "history-panic"
                } else if r.key.2 > 0 {
                    "history-mismatch-in-aborted-op"
                } else {
                    "history-mismatch"
                };
                return Some(Mismatch { class: class.into(), op: Some(r.op), expected: exp.clone(), observed: r.outcome.clone() });
            }
        }
    }
    for (k, (a, _)) in refs {
        if let Some((b, _)) = refs2.get(k) {
            if a != b {
                return Some(Mismatch { class: "fresh-parser-unstable".into(), op: None, expected: a.clone(), observed: b.clone() });
            }
        }
    }
    None
}

fn heavy(refs: &BTreeMap<RefKey, (Outcome, u64)>) -> bool {
    refs.values().any(|(o, _)| matches!(o, Outcome::Panicked { msg } if msg.starts_with(hook::BUDGET_MSG)))
}

/// How a history is obtained: given, or generated from the case PRNG once callback counts are known.
pub enum Plan<'r> {
    Given(&'r [Op]),
    Gen(&'r mut Rng, &'r GenOpsCfg),
}

type Refs = BTreeMap<RefKey, (Outcome, u64)>;

fn discarded(ops: Vec<Op>, refs: Refs) -> (Vec<Op>, Ran) {
    (ops, Ran { mismatch: None, results: vec![], refs, discarded: true })
}

/// Phase 1 (optionally on a pristine thread): callback table, history generation, references.
fn phase1<'a, I, P>(fresh: &(dyn Fn() -> P + Sync), mk: &(dyn Fn(usize) -> I + Sync), npool: usize, plan: Plan<'_>) -> Option<(Vec<Op>, Refs)>
where
    I: Input<'a>,
    I::Token: Tok,
    I::Span: SpanX,
    P: Parser<'a, I, Val, Ex<'a, I>> + Clone + 'a,
{
    // the callback table is computed in both modes, so that a replay performs exactly the same
    // sequence of parses on its thread as the run that generated the history
    let keys: Vec<RefKey> = (0..npool).flat_map(|i| (0..4u8).map(move |m| (i, m, 0u64))).collect();
    let t = references::<I, P>(fresh, mk, &keys, REF_TICK_CAP);
    if heavy(&t) {
        return None;
    }
    let ops_v = match plan {
        Plan::Given(o) => o.to_vec(),
        Plan::Gen(rng, cfg) => gen_ops(rng, npool, cfg, &|i, m| t.get(&(i, m, 0)).map(|x| x.1).unwrap_or(0)),
    };
    let keys = keys_of(&ops_v);
    let refs = references::<I, P>(fresh, mk, &keys, REF_TICK_CAP);
    Some((ops_v, refs))
}

/// Generic driver: references (phase 1), the history on this thread, references again (phase 2).
/// With `pristine`, both reference phases run on brand-new OS threads (no thread-local of this
/// worker, polluted by earlier histories, can leak into the reference).
fn drive<'a, I, P>(
    fresh: &(dyn Fn() -> P + Sync),
    mk: &(dyn Fn(usize) -> I + Sync),
    npool: usize,
    plan: Plan<'_>,
    pristine: bool,
    history: &dyn Fn(&[Op]) -> Vec<OpResult>,
) -> (Vec<Op>, Ran)
where
    I: Input<'a>,
    I::Token: Tok,
    I::Span: SpanX,
    P: Parser<'a, I, Val, Ex<'a, I>> + Clone + 'a,
{
    // `P` is the type of the REFERENCE parser; the history may run on a different parser type
    // (it only reaches this function as the `history` closure).
    let p1 = if pristine { on_pristine_thread(|| phase1::<I, P>(fresh, mk, npool, plan)) } else { phase1::<I, P>(fresh, mk, npool, plan) };
    let Some((ops_v, refs)) = p1 else { return discarded(vec![], BTreeMap::new()) };
    if heavy(&refs) {
        return discarded(ops_v, refs);
    }
    let results = history(&ops_v);
    let keys = keys_of(&ops_v);
    let refs2 = if pristine { on_pristine_thread(|| references::<I, P>(fresh, mk, &keys, REF_TICK_CAP)) } else { references::<I, P>(fresh, mk, &keys, REF_TICK_CAP) };
    let mismatch = judge(&refs, &refs2, &results);
    (ops_v, Ran { mismatch, results, refs, discarded: false })
}

fn drive_plain<'a, I, P>(fresh: &(dyn Fn() -> P + Sync), root: &(dyn Fn() -> P + Sync), mk: &(dyn Fn(usize) -> I + Sync), npool: usize, plan: Plan<'_>, pristine: bool) -> (Vec<Op>, Ran)
where
    I: Input<'a>,
    I::Token: Tok,
    I::Span: SpanX,
    P: Parser<'a, I, Val, Ex<'a, I>> + Clone + 'a,
{
    drive::<I, P>(fresh, mk, npool, plan, pristine, &|ops| run_history::<I, P>(root(), mk, npool, ops))
}

pub fn char_text(syms: &[u8]) -> String {
    syms.iter().map(|s| CHARS[*s as usize % CHARS.len()]).collect()
}

struct CG(G);
impl Cached for CG {
    type Parser<'src> = BP<'src, &'src [u8]>;
    fn make_parser<'src>(self) -> Self::Parser<'src> {
        build::<&'src [u8]>(&self.0)
    }
}

/// History through a `Cache`: every operation materialises its input as a short-lived value, so
/// `Cache::get` really hands the stored parser out at many different lifetimes. With `reuse`, the
/// inputs of all operations are written into the same two buffers (`clear()` + refill, like a line
/// buffer in a read loop): consecutive inputs then live at the SAME ADDRESS, often with the same
/// length, and differ only in content — anything a parser value remembers about "the input at this
/// address" from an earlier parse is wrong for the next one.
macro_rules! cache_history_fn {
    ($name:ident, $C:ty, $Buf:ty, $In:ty) => {
        fn $name(mk_cache: &dyn Fn() -> Cache<$C>, npool: usize, fill: &dyn Fn(usize, &mut $Buf), reuse: bool, ops: &[Op]) -> Vec<OpResult> {
            let cache: Cache<$C> = mk_cache();
            let mut extra: Vec<Option<Cache<$C>>> = vec![];
            let mut out = Vec::new();
            let mut buf1: $Buf = <$Buf>::with_capacity(256);
            let mut buf2: $Buf = <$Buf>::with_capacity(256);
            // slot 0 = the cache; Derive/CloneH create further caches from the same source (a Cache is not Clone);
            // through each, parses go via get() or via a clone of get() taken at the input's own lifetime.
            for (i, op) in ops.iter().enumerate() {
                match op {
                    Op::Parse { h, inp, mode, refs, abort } => {
                        if *inp >= npool {
                            continue;
                        }
                        let c: &Cache<$C> = if *h == 0 {
                            &cache
                        } else {
                            match extra.get(*h - 1) {
                                Some(Some(c)) => c,
                                _ => continue,
                            }
                        };
                        let mut fresh_buf: $Buf = <$Buf>::new();
                        let short: &$Buf = if reuse {
                            buf1.clear();
                            fill(*inp, &mut buf1);
                            &buf1
                        } else {
                            fill(*inp, &mut fresh_buf);
                            &fresh_buf
                        };
                        hook::begin_op(*abort, u64::MAX, u64::MAX);
                        hook::begin_ticks(u64::MAX);
                        let o = {
                            let p = c.get();
                            match refs {
                                0 => exec::<$In, _, _>(p, || &short[..], *mode, state_seed(*inp)),
                                1 => {
                                    let q = p.clone();
                                    exec::<$In, _, _>(&q, || &short[..], *mode, state_seed(*inp))
                                }
                                _ => {
                                    let q = Rc::new(p.clone());
                                    exec::<$In, _, _>(&&q, || &short[..], *mode, state_seed(*inp))
                                }
                            }
                        };
                        let (_, _, fired) = hook::end_op();
                        hook::end_ticks();
                        drop(fresh_buf);
                        out.push(OpResult { nested: false, op: i, key: (*inp, mode_ix(*mode), *abort), form: CACHE_FORM, outcome: o, abort_fired: fired });
                    }
                    Op::Derive { .. } | Op::CloneH { .. } => extra.push(Some(mk_cache())),
                    Op::CloneMany { .. } => {}
                    Op::DropH { h } => {
                        if *h > 0 {
                            if let Some(s) = extra.get_mut(*h - 1) {
                                *s = None;
                            }
                        }
                    }
                    Op::Reenter { h, inp, mode, at, h2, inp2, mode2 } => {
                        if *inp >= npool || *inp2 >= npool {
                            continue;
                        }
                        let pick = |h: usize| -> Option<&Cache<$C>> {
                            if h == 0 {
                                Some(&cache)
                            } else {
                                extra.get(h - 1).and_then(|c| c.as_ref())
                            }
                        };
                        let (Some(c1), Some(c2)) = (pick(*h), pick(*h2)) else { continue };
                        let (mut f1, mut f2): ($Buf, $Buf) = (<$Buf>::new(), <$Buf>::new());
                        let (short1, short2): (&$Buf, &$Buf) = if reuse {
                            buf1.clear();
                            fill(*inp, &mut buf1);
                            buf2.clear();
                            fill(*inp2, &mut buf2);
                            (&buf1, &buf2)
                        } else {
                            fill(*inp, &mut f1);
                            fill(*inp2, &mut f2);
                            (&f1, &f2)
                        };
                        let inner: std::cell::RefCell<Option<Outcome>> = std::cell::RefCell::new(None);
                        {
                            let inner_ref = &inner;
                            let f = move || {
                                hook::begin_op(0, u64::MAX, u64::MAX);
                                hook::begin_ticks(u64::MAX);
                                let o = exec::<$In, _, _>(c2.get(), || &short2[..], *mode2, state_seed(*inp2));
                                hook::end_op();
                                hook::end_ticks();
                                *inner_ref.borrow_mut() = Some(o);
                            };
                            let b: Box<dyn FnOnce() + '_> = Box::new(f);
                            // SAFETY: taken or cleared before anything it borrows goes out of scope
                            let b: Box<dyn FnOnce() + 'static> = unsafe { std::mem::transmute(b) };
                            hook::set_reenter(*at, b);
                        }
                        hook::begin_op(0, u64::MAX, u64::MAX);
                        hook::begin_ticks(u64::MAX);
                        let o = exec::<$In, _, _>(c1.get(), || &short1[..], *mode, state_seed(*inp));
                        hook::end_op();
                        hook::end_ticks();
                        hook::clear_reenter();
                        if let Some(io) = inner.into_inner() {
                            out.push(OpResult { nested: true, op: i, key: (*inp2, mode_ix(*mode2), 0), form: CACHE_FORM, outcome: io, abort_fired: false });
                        }
                        out.push(OpResult { nested: false, op: i, key: (*inp, mode_ix(*mode), 0), form: CACHE_FORM, outcome: o, abort_fired: false });
                    }
                    Op::MoveH { .. } | Op::Nop => {}
                }
            }
            out
        }
    };
}

cache_history_fn!(run_cache_history_u8, CG, Vec<u8>, &[u8]);
cache_history_fn!(run_cache_history_str, ZooH, String, &str);

/// The statically typed zoo behind a `Cache` (boxed so that one `Cached` type serves all of them).
struct ZooH(usize);
impl Cached for ZooH {
    type Parser<'src> = chumsky::Boxed<'src, 'src, &'src str, Val, zoo::ExS<'src>>;
    fn make_parser<'src>(self) -> Self::Parser<'src> {
        match self.0 {
            0 => zoo::memo().boxed(),
            1 => zoo::pratt().boxed(),
            2 => zoo::rx().boxed(),
            3 => zoo::valid().boxed(),
            4 => zoo::rx2().boxed(),
            5 => zoo::list().boxed(),
            6 => zoo::arith().boxed(),
            7 => zoo::sexp().boxed(),
            8 => zoo::empty_err::valid().boxed(),
            9 => zoo::empty_err::memo().boxed(),
            10 => zoo::cheap_err::valid().boxed(),
            11 => zoo::cheap_err::memo().boxed(),
            12 => zoo::simple_err::valid().boxed(),
            13 => zoo::simple_err::memo().boxed(),
            14 => zoo::empty_err::sexp().boxed(),
            15 => zoo::cheap_err::sexp().boxed(),
            16 => zoo::simple_err::sexp().boxed(),
            17 => zoo::pratt_vec().boxed(),
            18 => zoo::empty_err::pratt_vec().boxed(),
            19 => zoo::cheap_err::pratt_vec().boxed(),
            _ => zoo::simple_err::pratt_vec().boxed(),
        }
    }
}

/// Visitor over the statically typed zoo (each grammar has its own opaque type).
pub trait ZooVisitor<'a, R> {
    fn visit<P: Parser<'a, &'a str, Val, zoo::ExS<'a>> + Clone + 'a>(self, f: fn() -> P) -> R;
}

pub fn with_zoo<'a, R>(z: usize, v: impl ZooVisitor<'a, R>) -> R {
    match z {
        0 => v.visit(zoo::memo),
        1 => v.visit(zoo::pratt),
        2 => v.visit(zoo::rx),
        3 => v.visit(zoo::valid),
        4 => v.visit(zoo::rx2),
        5 => v.visit(zoo::list),
        6 => v.visit(zoo::arith),
        7 => v.visit(zoo::sexp),
        8 => v.visit(zoo::empty_err::valid),
        9 => v.visit(zoo::empty_err::memo),
        10 => v.visit(zoo::cheap_err::valid),
        11 => v.visit(zoo::cheap_err::memo),
        12 => v.visit(zoo::simple_err::valid),
        13 => v.visit(zoo::simple_err::memo),
        14 => v.visit(zoo::empty_err::sexp),
        15 => v.visit(zoo::cheap_err::sexp),
        16 => v.visit(zoo::simple_err::sexp),
        17 => v.visit(zoo::pratt_vec),
        18 => v.visit(zoo::empty_err::pratt_vec),
        19 => v.visit(zoo::cheap_err::pratt_vec),
        _ => v.visit(zoo::simple_err::pratt_vec),
    }
}

struct ZooDrive<'a, 'r> {
    texts: &'a [String],
    plan: Plan<'r>,
    pristine: bool,
}
impl<'a, 'r> ZooVisitor<'a, (Vec<Op>, Ran)> for ZooDrive<'a, 'r> {
    fn visit<P: Parser<'a, &'a str, Val, zoo::ExS<'a>> + Clone + 'a>(self, f: fn() -> P) -> (Vec<Op>, Ran) {
        let texts = self.texts;
        let fresh = move || f();
        let mk = move |i: usize| &texts[i][..];
        drive_plain::<&str, P>(&fresh, &fresh, &mk, texts.len(), self.plan, self.pristine)
    }
}

struct ZooCacheDrive<'a, 'r> {
    z: usize,
    texts: &'a [String],
    plan: Plan<'r>,
    pristine: bool,
    reuse: bool,
}
impl<'a, 'r> ZooVisitor<'a, (Vec<Op>, Ran)> for ZooCacheDrive<'a, 'r> {
    fn visit<P: Parser<'a, &'a str, Val, zoo::ExS<'a>> + Clone + 'a>(self, f: fn() -> P) -> (Vec<Op>, Ran) {
        let (texts, z, reuse) = (self.texts, self.z, self.reuse);
        let fresh = move || f();
        let mk = move |i: usize| &texts[i][..];
        // reference: the grammar itself, freshly built, on the persistent pool texts; history: the same
        // grammar behind a Cache, fed from short-lived (and usually reused) buffers
        drive::<&str, P>(&fresh, &mk, texts.len(), self.plan, self.pristine, &|ops| run_cache_history_str(&|| Cache::new(ZooH(z)), texts.len(), &|i, buf: &mut String| buf.push_str(&texts[i]), reuse, ops))
    }
}

/// Run one fully specified case (`Plan::Given`) or generate its history first (`Plan::Gen`).
/// Build with every combinator node replaced by its own clone (see build::set_clone_nodes) and every
/// configurable parser used through a reference (see build::set_cfg_by_ref).
fn cloned_build<'a, I>(g: &G, on: bool) -> BP<'a, I>
where
    I: crate::build::Caps<'a>,
    I::Token: Tok,
    I::Span: SpanX,
{
    crate::build::set_clone_nodes(on);
    crate::build::set_cfg_by_ref(on);
    let r = std::panic::catch_unwind(std::panic::AssertUnwindSafe(|| build::<I>(g)));
    crate::build::set_clone_nodes(false);
    crate::build::set_cfg_by_ref(false);
    match r {
        Ok(p) => p,
        Err(e) => std::panic::resume_unwind(e),
    }
}

fn run_prelude<'a, I>(g0: &G, clone_nodes: bool, mk: &dyn Fn(usize) -> I, n: usize)
where
    I: crate::build::Caps<'a>,
    I::Token: Tok,
    I::Span: SpanX,
{
    let built = std::panic::catch_unwind(std::panic::AssertUnwindSafe(|| cloned_build::<I>(g0, clone_nodes)));
    let Ok(p0) = built else {
        let _ = hook::take_panic();
        return;
    };
    for i in 0..n {
        for mode in [PMode::Parse, PMode::Check] {
            hook::begin_op(0, u64::MAX, u64::MAX);
            hook::begin_ticks(REF_TICK_CAP);
            let _ = exec::<I, _, _>(&p0, || mk(i), mode, state_seed(i));
            hook::end_op();
            hook::end_ticks();
        }
    }
    drop(p0);
}

pub fn run_spec(subject: &Subject, pool_syms: &[Vec<u8>], pool_text: &[String], reader_seed: u64, plan: Plan<'_>, pristine: bool, clone_nodes: bool, prelude: Option<&G>) -> (Vec<Op>, Ran) {
    let n = pool_syms.len();
    let toks: Vec<Vec<u8>> = pool_syms.iter().map(|v| v.iter().map(|s| u8::from_sym(*s)).collect()).collect();
    let toks = &toks;
    match subject {
        Subject::Dyn { grammar, kind } => {
            let g = grammar;
            match kind {
                InKind::Slice => {
                    let mk = move |i: usize| &toks[i][..];
                    drive_plain::<&[u8], BP<'_, &[u8]>>(
                        &|| build::<&[u8]>(g),
                        &|| {
                            if let Some(g0) = prelude {
                                run_prelude::<&[u8]>(g0, clone_nodes, &mk, n);
                            }
                            cloned_build::<&[u8]>(g, clone_nodes)
                        },
                        &mk,
                        n,
                        plan,
                        pristine,
                    )
                }
                InKind::Str => {
                    let texts: Vec<String> = pool_syms.iter().map(|v| char_text(v)).collect();
                    let texts = &texts;
                    let mk = move |i: usize| &texts[i][..];
                    drive_plain::<&str, BP<'_, &str>>(
                        &|| build::<&str>(g),
                        &|| {
                            if let Some(g0) = prelude {
                                run_prelude::<&str>(g0, clone_nodes, &mk, n);
                            }
                            cloned_build::<&str>(g, clone_nodes)
                        },
                        &mk,
                        n,
                        plan,
                        pristine,
                    )
                }
                InKind::Stream => drive_plain::<Stream<SimIter<u8>>, BP<'_, Stream<SimIter<u8>>>>(
                    &|| build::<Stream<SimIter<u8>>>(g),
                    &|| cloned_build::<Stream<SimIter<u8>>>(g, clone_nodes),
                    &move |i: usize| Stream::from_iter(SimIter::new(Rc::new(toks[i].clone()), Hint::Exact).0),
                    n,
                    plan,
                    pristine,
                ),
                InKind::Io => drive_plain::<IoInput<SimReader>, BP<'_, IoInput<SimReader>>>(
                    &|| build::<IoInput<SimReader>>(g),
                    &|| cloned_build::<IoInput<SimReader>>(g, clone_nodes),
                    &move |i: usize| {
                        let mut r = Rng::new(reader_seed ^ (i as u64).wrapping_mul(0x9E37));
                        let pol = ReaderPolicy::legal(&mut r, toks[i].len(), &[]);
                        IoInput::new(SimReader::new(Rc::new(toks[i].clone()), pol, r).0)
                    },
                    n,
                    plan,
                    pristine,
                ),
            }
        }
        Subject::Zoo { z } => with_zoo(*z, ZooDrive { texts: pool_text, plan, pristine }),
        Subject::DynRef { grammar } => {
            let g = grammar;
            let arena = crate::build::Arena::default();
            let arena_ref = &arena;
            let mk = move |i: usize| &toks[i][..];
            // one shared tree of `&dyn` nodes; handles are copies of the root reference
            let root: crate::build::SP<'_, &[u8]> = crate::build::build_sync::<&[u8]>(g, arena_ref);
            struct SendPtr<T>(T);
            unsafe impl<T> Sync for SendPtr<T> {}
            let _ = SendPtr(0u8);
            drive::<&[u8], BP<'_, &[u8]>>(&|| build::<&[u8]>(g), &mk, n, plan, pristine, &|ops| run_history::<&[u8], crate::build::SP<'_, &[u8]>>(root, &mk, n, ops))
        }
        Subject::CacheDyn { grammar } => {
            let g = grammar;
            let reuse = reader_seed & 3 != 0;
            let mk = move |i: usize| &toks[i][..];
            drive::<&[u8], BP<'_, &[u8]>>(&|| build::<&[u8]>(g), &mk, n, plan, pristine, &|ops| {
                if let Some(g0) = prelude {
                    run_prelude::<&[u8]>(g0, false, &mk, n);
                }
                run_cache_history_u8(&|| Cache::new(CG(g.clone())), n, &|i, buf: &mut Vec<u8>| buf.extend(pool_syms[i].iter().map(|s| u8::from_sym(*s))), reuse, ops)
            })
        }
        Subject::ZooCache { z } => with_zoo(*z, ZooCacheDrive { z: *z, texts: pool_text, plan, pristine, reuse: reader_seed & 3 != 0 }),
    }
}

// ---------------------------------------------------------------------------------------------
// Engine

pub struct HistSim;

/// The first N_ENUM case indices are the exhaustively enumerated sub-space (DESIGN §4.1).
pub const ENUM_VARIANTS: u64 = 3;
pub const N_ENUM: u64 = zoo::ZOO_NAMES.len() as u64 * ENUM_VARIANTS;

fn subject_shown(s: &Subject) -> String {
    match s {
        Subject::Dyn { grammar, kind } => format!("dyn[{:?}] {}", kind, gram::sexpr(grammar)),
        Subject::Zoo { z } => format!("zoo::{}", zoo::ZOO_NAMES[*z]),
        Subject::ZooCache { z } => format!("Cache[zoo::{}] (inputs in reused buffers)", zoo::ZOO_NAMES[*z]),
        Subject::CacheDyn { grammar } => format!("Cache[&[u8]] {}", gram::sexpr(grammar)),
        Subject::DynRef { grammar } => format!("&dyn-at-every-node[&[u8]] {}", gram::sexpr(grammar)),
    }
}

fn pool_shown(c: &HistCase) -> Vec<String> {
    match &c.subject {
        Subject::Zoo { .. } | Subject::ZooCache { .. } => c.pool_text.clone(),
        _ => c.pool_syms.iter().map(|v| gram::show_input(v)).collect(),
    }
}

fn ops_digest(ops: &[Op]) -> u64 {
    fold_bytes(7, format!("{:?}", ops).as_bytes())
}

fn nontrivial(results: &[OpResult], ops: &[Op]) -> bool {
    // ≥ 2 parses whose references differ in acceptance (a failing parse next to a succeeding one),
    // or an aborted parse that actually fired followed by another parse, or a drop/move before a parse
    let parses: Vec<&OpResult> = results.iter().collect();
    if parses.len() < 2 {
        return false;
    }
    let acc: Vec<Option<bool>> = parses.iter().map(|r| r.outcome.accepted()).collect();
    let mixed = acc.iter().any(|a| *a == Some(true)) && acc.iter().any(|a| *a == Some(false));
    let abort_then_parse = parses.iter().position(|r| r.abort_fired).map(|i| i + 1 < parses.len()).unwrap_or(false);
    let lifecycle = ops.iter().any(|o| matches!(o, Op::DropH { .. } | Op::MoveH { .. } | Op::Derive { .. }));
    (mixed || abort_then_parse) && (lifecycle || parses.len() >= 3)
}

impl HistSim {
    fn record(&self, acc: &mut Acc, seed: u64, idx: u64, case: &HistCase, ran: &Ran) -> u64 {
        acc.inc(&format!("subject.{}", match &case.subject {
            Subject::Dyn { kind, .. } => format!("generated[{:?}]", kind),
            Subject::Zoo { z } => format!("zoo::{}", zoo::ZOO_NAMES[*z]),
            Subject::ZooCache { z } => format!("Cache[zoo::{}]", zoo::ZOO_NAMES[*z]),
            Subject::CacheDyn { .. } => "Cache[generated]".into(),
            Subject::DynRef { .. } => "&dyn-at-every-node".into(),
        }));
        if case.prelude.is_some() {
            acc.inc("histories.after_a_sibling_grammar_lived_and_died_on_the_thread(prelude)");
        }
        if matches!(case.subject, Subject::ZooCache { .. } | Subject::CacheDyn { .. }) && case.reader_seed & 3 != 0 {
            acc.inc("histories.inputs_in_reused_buffer(same address, other content)");
        }
        if let Subject::Dyn { grammar, .. } | Subject::CacheDyn { grammar } = &case.subject {
            if gram::contains(grammar, &|x| matches!(x, G::Text(k) if (9..=12).contains(k))) {
                acc.inc("histories.subject_with_regex");
            } else if gram::contains(grammar, &|x| matches!(x, G::Text(_))) {
                acc.inc("histories.subject_with_text_parsers");
            }
        }
        let mut d = fold(fold_bytes(3, subject_shown(&case.subject).as_bytes()), ops_digest(&case.ops));
        if ran.discarded {
            acc.inc("cases.discarded_reference_too_heavy");
            return d;
        }
        for r in &ran.results {
            d = fold(d, r.outcome.digest());
            acc.inc("evaluations.history_parses");
            acc.inc(&format!("parses_through.{}", if r.form == CACHE_FORM { "Cache::get()" } else { FORM_NAMES[r.form] }));
            if r.abort_fired {
                acc.inc("fault.aborted_parse_fired");
            }
            match r.outcome.accepted() {
                Some(true) => acc.inc("op_outcomes.accepted"),
                Some(false) => acc.inc("op_outcomes.rejected"),
                None => acc.inc("op_outcomes.panicked(compared as outcome)"),
            }
            if let Outcome::Finished { out: Some(_), errs } = &r.outcome {
                if !errs.is_empty() {
                    acc.inc("op_outcomes.recovered(output+errors)");
                }
            }
        }
        acc.add("evaluations.reference_parses", 2 * ran.refs.len() as u64);
        for o in &case.ops {
            let k = match o {
                Op::Parse { abort, refs, mode, .. } => {
                    if *abort > 0 {
                        acc.inc("ops.parse.with_injected_abort");
                    }
                    if *refs > 0 {
                        acc.inc("ops.parse.through_reference");
                    }
                    acc.inc(&format!("ops.parse.mode.{:?}", mode));
                    "ops.parse"
                }
                Op::Reenter { .. } => "ops.reentrant_parse(second parse started inside a callback of the first)",
                Op::Derive { .. } => "ops.derive_wrapper",
                Op::CloneH { .. } => "ops.clone_handle",
                Op::CloneMany { .. } => "ops.clone_many(16..2500 live clones)",
                Op::DropH { h } => {
                    if *h == 0 {
                        acc.inc("ops.drop_original");
                    }
                    "ops.drop_handle"
                }
                Op::MoveH { .. } => "ops.move_handle",
                Op::Nop => "ops.nop",
            };
            acc.inc(k);
        }
        acc.add("sim_steps.history_ops", case.ops.len() as u64);
        if case.clone_nodes && matches!(case.subject, Subject::Dyn { .. }) {
            acc.inc("histories.parser_built_from_node_clones");
        }
        // histories in which a failing parse precedes a succeeding one on the same handle, and v.v.
        let mut by_h: BTreeMap<usize, Vec<Option<bool>>> = BTreeMap::new();
        for r in &ran.results {
            if let Op::Parse { h, .. } = &case.ops[r.op] {
                by_h.entry(*h).or_default().push(r.outcome.accepted());
            }
            if r.nested {
                acc.inc("fired.reentrant_parse_ran_inside_callback");
            }
        }
        if by_h.values().any(|v| v.windows(2).any(|w| w[0] == Some(false) && w[1] == Some(true))) {
            acc.inc("histories.fail_then_success_same_handle");
        }
        if by_h.values().any(|v| v.windows(2).any(|w| w[0] == Some(true) && w[1] == Some(false))) {
            acc.inc("histories.success_then_fail_same_handle");
        }
        if by_h.values().any(|v| v.windows(2).any(|w| w[0].is_none() && w[1].is_some())) {
            acc.inc("histories.panic_then_parse_same_handle");
        }
        if nontrivial(&ran.results, &case.ops) {
            acc.distinct("nontrivial_cases", d);
        }
        acc.distinct("cases", d);
        if let Some(m) = &ran.mismatch {
            let rp = Replay {
                engine: "histsim".into(),
                property: "C13".into(),
                seed,
                case: idx,
                class: m.class.clone(),
                subject_shown: subject_shown(&case.subject),
                pool_shown: pool_shown(case),
                spec: case.clone(),
                failing_op: m.op,
                expected: Some(m.expected.clone()),
                observed: Some(m.observed.clone()),
            };
            acc.violations.push(Violation {
                property: "C13".into(),
                engine: "histsim".into(),
                seed,
                case: idx,
                class: m.class.clone(),
                summary: format!(
                    "{} subject={} pool={:?} op#{:?}={:?} expected={} observed={}",
                    m.class,
                    rp.subject_shown,
                    rp.pool_shown,
                    m.op,
                    m.op.map(|i| case.ops[i].clone()),
                    m.expected.brief(),
                    m.observed.brief()
                ),
                replay: serde_json::to_value(&rp).unwrap(),
            });
        } else {
            acc.sample("samples", idx, 6, || {
                json!({
                    "case": idx, "subject": subject_shown(&case.subject), "pool": pool_shown(case),
                    "history": case.ops.iter().map(|o| format!("{:?}", o)).collect::<Vec<_>>(),
                    "outcomes": ran.results.iter().map(|r| format!("op#{} via {}: {}", r.op, if r.form == CACHE_FORM { "Cache::get()" } else { FORM_NAMES[r.form] }, short(&r.outcome))).collect::<Vec<_>>(),
                })
            });
        }
        d
    }

    fn enumerated(&self, seed: u64, idx: u64, tier: &str, acc: &mut Acc) -> u64 {
        // all histories of length <= L over the first 4 pool inputs, on {one value, a fresh clone
        // per step, a fresh wrapper per step (dropping the previous one every other step)}
        let z = (idx / ENUM_VARIANTS) as usize;
        let variant = idx % ENUM_VARIANTS;
        let maxlen = if tier == "thorough" { 6 } else { 4 };
        let texts: Vec<String> = zoo::pool(z).iter().take(4).map(|s| s.to_string()).collect();
        struct V<'a, 'b> {
            me: &'b HistSim,
            acc: &'b mut Acc,
            texts: &'a [String],
            z: usize,
            variant: u64,
            maxlen: usize,
            seed: u64,
            idx: u64,
        }
        impl<'a, 'b> ZooVisitor<'a, u64> for V<'a, 'b> {
            fn visit<P: Parser<'a, &'a str, Val, zoo::ExS<'a>> + Clone + 'a>(self, f: fn() -> P) -> u64 {
                let V { me, acc, texts, z, variant, maxlen, seed, idx } = self;
                let fresh = move || f();
                let mk = move |i: usize| &texts[i][..];
                let keys: Vec<RefKey> = (0..4usize).flat_map(|i| (0..2u8).map(move |m| (i, m, 0u64))).collect();
                // references once, on a pristine thread, before any history; again after all of them
                let refs = on_pristine_thread(|| references::<&str, P>(&fresh, &mk, &keys, REF_TICK_CAP));
                let mut d = fold(idx, 99);
                let mut count = 0u64;
                for len in 1..=maxlen {
                    let total = 4u64.pow(len as u32);
                    for code in 0..total {
                        let mut ops = Vec::new();
                        let mut c = code;
                        let mut cur = 0usize;
                        let mut nslots = 1usize;
                        for step in 0..len {
                            let inp = (c % 4) as usize;
                            c /= 4;
                            match variant {
                                0 => {}
                                1 => {
                                    ops.push(Op::CloneH { h: cur });
                                    cur = nslots;
                                    nslots += 1;
                                }
                                _ => {
                                    ops.push(Op::Derive { h: cur, form: ((step as u64 + code) % N_FORMS as u64) as u8, flip: step % 2 == 0 });
                                    if step % 2 == 1 {
                                        ops.push(Op::DropH { h: cur });
                                    }
                                    cur = nslots;
                                    nslots += 1;
                                }
                            }
                            let mode = if (code >> step) & 1 == 0 || variant == 0 { PMode::Parse } else { PMode::Check };
                            ops.push(Op::Parse { h: cur, inp, mode, refs: 0, abort: 0 });
                        }
                        let results = run_history::<&str, P>(fresh(), &mk, 4, &ops);
                        let mismatch = judge(&refs, &refs, &results);
                        if mismatch.is_some() {
                            // does this one history fail on its own (replayed as an ordinary case)?
                            let case = HistCase { subject: Subject::Zoo { z }, pool_syms: vec![], pool_text: texts.to_vec(), ops: ops.clone(), reader_seed: 0, pristine: true, clone_nodes: false, prelude: None };
                            let alone = on_pristine_thread(|| run_spec(&case.subject, &case.pool_syms, &case.pool_text, 0, Plan::Given(&case.ops), true, false, None).1);
                            if alone.mismatch.is_none() {
                                // only after the earlier histories of this enumeration: the replay is the enumeration itself
                                let m = mismatch.unwrap();
                                acc.violations.push(Violation {
                                    property: "C13".into(),
                                    engine: "histsim".into(),
                                    seed,
                                    case: idx,
                                    class: format!("{}(after-earlier-histories)", m.class),
                                    summary: format!("enumerated histories of zoo::{} (discipline {}): history #{} {:?} differs from a fresh parser only after the earlier histories ran on the same thread; expected={} observed={}", zoo::ZOO_NAMES[z], variant, count, ops, m.expected.brief(), m.observed.brief()),
                                    replay: json!({"engine": "histsim", "property": "C13", "seed": seed, "case": idx, "tier": if maxlen > 4 { "thorough" } else { "quick" }, "regenerate": true, "class": m.class, "history_number": count, "history": format!("{:?}", ops)}),
                                });
                                return d;
                            }
                        }
                        let case = HistCase { subject: Subject::Zoo { z }, pool_syms: vec![], pool_text: texts.to_vec(), ops, reader_seed: 0, pristine: true, clone_nodes: false, prelude: None };
                        let ran = Ran { mismatch, results, refs: BTreeMap::new(), discarded: false };
                        count += 1;
                        d = fold(d, me.record(acc, seed, idx, &case, &ran));
                        if !acc.violations.is_empty() {
                            return d;
                        }
                    }
                }
                let refs2 = on_pristine_thread(|| references::<&str, P>(&fresh, &mk, &keys, REF_TICK_CAP));
                acc.add("evaluations.reference_parses", 2 * refs.len() as u64);
                if let Some(m) = judge(&refs, &refs2, &[]) {
                    let case = HistCase { subject: Subject::Zoo { z }, pool_syms: vec![], pool_text: texts.to_vec(), ops: vec![], reader_seed: 0, pristine: true, clone_nodes: false, prelude: None };
                    let ran = Ran { mismatch: Some(m), results: vec![], refs: BTreeMap::new(), discarded: false };
                    d = fold(d, me.record(acc, seed, idx, &case, &ran));
                }
                acc.add("exhaustive_subspace.histories", count);
                acc.inc("exhaustive_subspace.(zoo grammar, handle discipline) pairs");
                d
            }
        }
        with_zoo(z, V { me: self, acc, texts: &texts, z, variant, maxlen, seed, idx })
    }
}

fn short(o: &Outcome) -> String {
    let s = o.brief();
    if s.len() > 160 {
        let mut cut = 160;
        while !s.is_char_boundary(cut) {
            cut -= 1;
        }
        format!("{}…", &s[..cut])
    } else {
        s
    }
}

pub fn gen_case(seed: u64, idx: u64) -> Option<(HistCase, Rng, GenOpsCfg)> {
    let mut rng = Rng::for_case(seed, "histsim", idx);
    let cfg = GenOpsCfg { max_ops: *rng.pick(&[4usize, 6, 8, 12]), p_abort: *rng.pick(&[(0u64, 1u64), (1, 8), (1, 4), (1, 2)]) };
    let pick = rng.below(11);
    let reader_seed = rng.next_u64();
    let pristine = rng.chance(1, 8);
    let clone_nodes = rng.chance(1, 3);
    if pick == 0 || pick == 10 {
        // zoo grammar (10: behind a Cache, inputs in reused buffers), random history
        let z = rng.usize(zoo::ZOO_NAMES.len());
        let all = zoo::pool(z);
        let n = rng.range(2, all.len() as u64) as usize;
        let mut texts: Vec<String> = Vec::new();
        for _ in 0..n {
            texts.push(all[rng.usize(all.len())].to_string());
        }
        let subject = if pick == 0 { Subject::Zoo { z } } else { Subject::ZooCache { z } };
        return Some((HistCase { subject, pool_syms: vec![], pool_text: texts, ops: vec![], reader_seed, pristine, clone_nodes, prelude: None }, rng, cfg));
    }
    let is_str = pick == 1 || pick == 2;
    let mut gcfg = GenCfg::swarm(&mut rng, true);
    // C13's classes: C01/C02/C08/C11 — memoization and recursion more often than in srcsim
    gcfg.allow_memo = rng.chance(1, 2);
    gcfg.allow_rec = rng.chance(1, 3);
    gcfg.allow_state = rng.chance(1, 2);
    // text parsers / regex on the StrInput subjects (&[u8], &str, Cache over &[u8]); padded() everywhere
    if matches!(pick, 1 | 2 | 5 | 6 | 7 | 8) {
        gcfg.allow_text = rng.chance(1, 4);
        gcfg.allow_regex = gcfg.allow_text && rng.chance(2, 3);
    }
    gcfg.allow_pad = gcfg.allow_text || rng.chance(1, 8);
    // nested_in over a region (fresh inner input of the same kind): byte subjects that are not sync-built
    gcfg.allow_nest = matches!(pick, 3..=8) && rng.chance(1, 4);
    if gcfg.allow_text || gcfg.allow_pad {
        gcfg.nsym = crate::tok::NSYM_TEXT;
    }
    let g = gram::generate(&mut rng, &gcfg);
    let npool = rng.range(2, 5) as usize;
    let mut pool = Vec::new();
    for _ in 0..npool {
        let max_len = *rng.pick(&[6usize, 12, 24]);
        pool.push(gram::gen_input(&g, &mut rng, gcfg.nsym, max_len));
    }
    let subject = match pick {
        9 => {
            let mut g = g;
            gram::strip_for_sync(&mut g);
            gram::fixup(&mut g, gcfg.nsym);
            Subject::DynRef { grammar: g }
        }
        1 | 2 => Subject::Dyn { grammar: g, kind: InKind::Str },
        3 => Subject::Dyn { grammar: g, kind: InKind::Stream },
        4 => Subject::Dyn { grammar: g, kind: InKind::Io },
        5 => Subject::CacheDyn { grammar: g },
        _ => Subject::Dyn { grammar: g, kind: InKind::Slice },
    };
    // prelude (Slice / Str / Cache subjects): a sibling grammar lives and dies on the history's thread first
    let prelude = if matches!(pick, 1 | 2 | 5 | 6 | 7 | 8) && rng.chance(1, 3) {
        let (Subject::Dyn { grammar, .. } | Subject::CacheDyn { grammar }) = &subject else { unreachable!() };
        Some(gram::sibling(grammar, &mut rng, gcfg.nsym, is_str))
    } else {
        None
    };
    let pristine = pristine || prelude.is_some();
    Some((HistCase { subject, pool_syms: pool, pool_text: vec![], ops: vec![], reader_seed, pristine, clone_nodes, prelude }, rng, cfg))
}

impl Engine for HistSim {
    fn name(&self) -> &'static str {
        "histsim"
    }
    fn property(&self) -> &'static str {
        "C13"
    }
    fn cases(&self, tier: &str) -> u64 {
        if tier == "thorough" {
            2_000_000
        } else {
            40_000
        }
    }
    fn confirm_on_fresh_thread(&self) -> bool {
        true
    }
    fn run_case(&self, seed: u64, idx: u64, tier: &str, acc: &mut Acc) -> u64 {
        acc.inc("evaluations.cases");
        if idx < N_ENUM {
            return self.enumerated(seed, idx, tier, acc);
        }
        let Some((mut case, mut rng, cfg)) = gen_case(seed, idx) else { return 0 };
        let (ops, ran) = run_spec(&case.subject, &case.pool_syms, &case.pool_text, case.reader_seed, Plan::Gen(&mut rng, &cfg), case.pristine, case.clone_nodes, case.prelude.as_ref());
        case.ops = ops;
        acc.inc("evaluations.histories");
        self.record(acc, seed, idx, &case, &ran)
    }
}

// ---------------------------------------------------------------------------------------------
// Replay + minimisation

pub fn replay(rp: &Replay) -> Option<(String, Option<usize>, Outcome, Outcome)> {
    let c = &rp.spec;
    let (_, ran) = run_spec(&c.subject, &c.pool_syms, &c.pool_text, c.reader_seed, Plan::Given(&c.ops), c.pristine, c.clone_nodes, c.prelude.as_ref());
    ran.mismatch.map(|m| (m.class, m.op, m.expected, m.observed))
}

fn class_family(c: &str) -> &str {
    if c.starts_with("history") {
        "history"
    } else {
        c
    }
}

pub fn minimise(rp: &Replay) -> Replay {
    let fam = class_family(&rp.class).to_string();
    let mut best = rp.clone();
    let mut budget = 600i32;
    let mut still = |cand: &Replay| -> Option<Replay> {
        if budget <= 0 {
            return None;
        }
        budget -= 1;
        if let Subject::Dyn { grammar, .. } | Subject::CacheDyn { grammar } | Subject::DynRef { grammar } = &cand.spec.subject {
            if !gram::well_scoped(grammar, false) {
                return None;
            }
        }
        match replay(cand) {
            Some((class, op, exp, obs)) if class_family(&class) == fam => {
                let mut c = cand.clone();
                c.class = class;
                c.failing_op = op;
                c.expected = Some(exp);
                c.observed = Some(obs);
                c.subject_shown = subject_shown(&c.spec.subject);
                c.pool_shown = pool_shown(&c.spec);
                Some(c)
            }
            _ => None,
        }
    };
    let mut progress = true;
    while progress {
        progress = false;
        // 1. cut the history after the failing op
        if let Some(f) = best.failing_op {
            if f + 1 < best.spec.ops.len() {
                let mut c = best.clone();
                c.spec.ops.truncate(f + 1);
                if let Some(b) = still(&c) {
                    best = b;
                    progress = true;
                }
            }
        }
        // 2. blank ops one at a time (ops on missing slots are skipped, so any list is executable)
        for i in 0..best.spec.ops.len() {
            if best.spec.ops[i] == Op::Nop {
                continue;
            }
            let mut c = best.clone();
            c.spec.ops[i] = Op::Nop;
            if let Some(b) = still(&c) {
                best = b;
                progress = true;
            }
        }
        // 3. simplify ops: no abort, no refs, plain Parse
        for i in 0..best.spec.ops.len() {
            if let Op::Parse { h, inp, mode, refs, abort } = best.spec.ops[i].clone() {
                for cand in [Op::Parse { h, inp, mode: PMode::Parse, refs: 0, abort: 0 }, Op::Parse { h, inp, mode, refs: 0, abort }, Op::Parse { h, inp, mode, refs, abort: 0 }] {
                    if cand == best.spec.ops[i] {
                        continue;
                    }
                    let mut c = best.clone();
                    c.spec.ops[i] = cand;
                    if let Some(b) = still(&c) {
                        best = b;
                        progress = true;
                        break;
                    }
                }
            }
        }
        for i in 0..best.spec.ops.len() {
            if let Op::Reenter { h, inp, mode, h2, inp2, mode2, .. } = best.spec.ops[i].clone() {
                for cand in [Op::Parse { h, inp, mode, refs: 0, abort: 0 }, Op::Parse { h: h2, inp: inp2, mode: mode2, refs: 0, abort: 0 }] {
                    let mut c = best.clone();
                    c.spec.ops[i] = cand;
                    if let Some(b) = still(&c) {
                        best = b;
                        progress = true;
                        break;
                    }
                }
            }
        }
        // 4. shrink pool inputs
        for pi in 0..best.spec.pool_syms.len() {
            let mut j = 0;
            while j < best.spec.pool_syms[pi].len() {
                let mut c = best.clone();
                c.spec.pool_syms[pi].remove(j);
                if let Some(b) = still(&c) {
                    best = b;
                    progress = true;
                } else {
                    j += 1;
                }
            }
        }
        // 5. shrink the grammar
        let g0 = match &best.spec.subject {
            Subject::Dyn { grammar, .. } | Subject::CacheDyn { grammar } | Subject::DynRef { grammar } => Some(grammar.clone()),
            _ => None,
        };
        if let Some(g0) = g0 {
            let n = gram::count_nodes(&g0);
            for pos in 0..n {
                let cur = match &best.spec.subject {
                    Subject::Dyn { grammar, .. } | Subject::CacheDyn { grammar } | Subject::DynRef { grammar } => grammar.clone(),
                    _ => unreachable!(),
                };
                for mut gnew in crate::srcsim::shrink_at(&cur, pos) {
                    gram::fixup(&mut gnew, 8);
                    if gram::count_nodes(&gnew) >= gram::count_nodes(&cur) {
                        continue;
                    }
                    let mut c = best.clone();
                    match &mut c.spec.subject {
                        Subject::Dyn { grammar, .. } | Subject::CacheDyn { grammar } | Subject::DynRef { grammar } => {
                            *grammar = gnew;
                            if matches!(c.spec.subject, Subject::DynRef { .. }) {
                                if let Subject::DynRef { grammar } = &mut c.spec.subject {
                                    gram::strip_for_sync(grammar);
                                }
                            }
                        }
                        _ => {}
                    }
                    if let Some(b) = still(&c) {
                        best = b;
                        progress = true;
                        break;
                    }
                }
            }
        }
    }
    // strip Nops that do not shift slot numbering (Nops never create slots)
    let mut c = best.clone();
    c.spec.ops.retain(|o| *o != Op::Nop);
    if let Some(b) = still(&c) {
        best = b;
    }
    best
}

pub fn describe(rp: &Replay) -> Value {
    json!({"subject": rp.subject_shown, "pool": rp.pool_shown, "ops": rp.spec.ops.iter().map(|o| format!("{:?}", o)).collect::<Vec<_>>()})
}
