//! Self-contained PRNG: SplitMix64. One integer decides everything.

#[derive(Clone, Debug)]
pub struct Rng {
    s: u64,
}

pub fn mix64(mut z: u64) -> u64 {
    z = z.wrapping_add(0x9E37_79B9_7F4A_7C15);
    z = (z ^ (z >> 30)).wrapping_mul(0xBF58_476D_1CE4_E5B9);
    z = (z ^ (z >> 27)).wrapping_mul(0x94D0_49BB_1331_11EB);
    z ^ (z >> 31)
}

/// FNV-style fold used for digests (stable across runs, no addresses, no hasher seeds).
pub fn fold(h: u64, x: u64) -> u64 {
    mix64(h ^ x.wrapping_mul(0x100_0000_01B3))
}

pub fn fold_bytes(mut h: u64, b: &[u8]) -> u64 {
    for &x in b {
        h = (h ^ x as u64).wrapping_mul(0x100_0000_01B3);
    }
    mix64(h ^ b.len() as u64)
}

impl Rng {
    pub fn new(seed: u64) -> Self {
        Rng { s: mix64(seed ^ 0xC0FF_EE00_D15E_A5E5) }
    }
    /// Derive the per-case generator from (VERIF_SEED, engine tag, case index).
    pub fn for_case(seed: u64, engine: &str, case: u64) -> Self {
        let mut h = mix64(seed);
        h = fold_bytes(h, engine.as_bytes());
        h = fold(h, case);
        Rng { s: h }
    }
    pub fn fork(&mut self, tag: u64) -> Rng {
        let a = self.next_u64();
        Rng { s: fold(a, tag) }
    }
    pub fn next_u64(&mut self) -> u64 {
        self.s = self.s.wrapping_add(0x9E37_79B9_7F4A_7C15);
        let mut z = self.s;
        z = (z ^ (z >> 30)).wrapping_mul(0xBF58_476D_1CE4_E5B9);
        z = (z ^ (z >> 27)).wrapping_mul(0x94D0_49BB_1331_11EB);
        z ^ (z >> 31)
    }
    /// Uniform in 0..n (n > 0).
    pub fn below(&mut self, n: u64) -> u64 {
        debug_assert!(n > 0);
        // multiply-shift; bias is irrelevant for n << 2^64
        ((self.next_u64() as u128 * n as u128) >> 64) as u64
    }
    pub fn range(&mut self, lo: u64, hi_incl: u64) -> u64 {
        lo + self.below(hi_incl - lo + 1)
    }
    pub fn usize(&mut self, n: usize) -> usize {
        self.below(n as u64) as usize
    }
    pub fn chance(&mut self, num: u64, den: u64) -> bool {
        self.below(den) < num
    }
    pub fn pick<'a, T>(&mut self, xs: &'a [T]) -> &'a T {
        &xs[self.usize(xs.len())]
    }
    /// Log-uniform integer in [lo, hi].
    pub fn log_range(&mut self, lo: u64, hi: u64) -> u64 {
        let l = (lo.max(1) as f64).ln();
        let h = (hi as f64).ln();
        let u = (self.next_u64() >> 11) as f64 / (1u64 << 53) as f64;
        let v = (l + (h - l) * u).exp().round() as u64;
        v.clamp(lo, hi)
    }
}
