//! C13 soak layer: one long-lived parser value, two parses of it separated by a long run of parses
//! of an UNRELATED parser — exactly 255 / 256 / 65 535 / 65 536 of them, the distances at which 8- and
//! 16-bit counters, generations and ring indices wrap. The child process of this engine runs with ONE
//! worker thread, so a process-wide counter sees exactly that many parses in between. Every zoo
//! grammar x every gap x a set of input pairs (each input after an input of the same length where the
//! pool has one); every result is compared with a fresh parser's.

use crate::histsim::{with_zoo, ZooVisitor};
use crate::hook;
use crate::norm::{exec, PMode};
use crate::pool::{Acc, Engine, Violation};
use crate::prng::fold;
use crate::val::{Outcome, Val};
use crate::zoo;
use chumsky::prelude::*;
use serde_json::json;

pub const GAPS_QUICK: [u32; 4] = [255, 256, 65_535, 65_536];
pub const GAPS_THOROUGH: [u32; 10] = [254, 255, 256, 257, 65_534, 65_535, 65_536, 65_537, 131_071, 131_072];

pub struct SoakSim;

fn idle(n: u32) {
    let unrelated = just::<_, &str, extra::Default>('x');
    for _ in 0..n {
        let _ = unrelated.parse("x");
    }
}

fn one<'a, P>(p: &P, text: &'a str, mode: PMode) -> Outcome
where
    P: Parser<'a, &'a str, Val, zoo::ExS<'a>>,
{
    hook::begin_op(0, u64::MAX, u64::MAX);
    hook::begin_ticks(50_000_000);
    let o = exec::<&str, P, _>(p, || text, mode, 7);
    hook::end_op();
    hook::end_ticks();
    o
}

/// (first input, second input) index pairs: every input follows a same-length partner where there is one
fn pairs(texts: &[&str]) -> Vec<(usize, usize)> {
    let n = texts.len();
    (0..n)
        .map(|j| {
            let partner = (0..n).find(|i| *i != j && texts[*i].len() == texts[j].len()).unwrap_or((j + 1) % n);
            (partner, j)
        })
        .collect()
}

pub struct Mismatch {
    pub gap: u32,
    pub i: usize,
    pub j: usize,
    pub mode: PMode,
    pub expected: Outcome,
    pub observed: Outcome,
}

struct V<'t> {
    texts: &'t [&'static str],
    gaps: Vec<u32>,
    only: Option<(u32, usize, usize)>,
}

impl<'a, 't> ZooVisitor<'a, (u64, u64, Option<Mismatch>)> for V<'t> {
    fn visit<P: Parser<'a, &'a str, Val, zoo::ExS<'a>> + Clone + 'a>(self, f: fn() -> P) -> (u64, u64, Option<Mismatch>) {
        let texts: &[&'static str] = self.texts;
        let modes = [PMode::Parse, PMode::Check];
        let refs: Vec<[Outcome; 2]> = texts.iter().map(|t| [one(&f(), *t, modes[0]), one(&f(), *t, modes[1])]).collect();
        let p = f();
        let (mut d, mut parses) = (0u64, 0u64);
        for gap in &self.gaps {
            for (k, (i, j)) in pairs(texts).into_iter().enumerate() {
                if let Some((g, oi, oj)) = self.only {
                    if g != *gap || oi != i || oj != j {
                        continue;
                    }
                }
                let m = k % 2;
                let first = one(&p, texts[i], PMode::Parse);
                parses += 1;
                if first != refs[i][0] {
                    return (d, parses, Some(Mismatch { gap: 0, i, j: i, mode: PMode::Parse, expected: refs[i][0].clone(), observed: first }));
                }
                idle(*gap);
                let second = one(&p, texts[j], modes[m]);
                parses += 1;
                d = fold(d, second.digest());
                if second != refs[j][m] {
                    return (d, parses, Some(Mismatch { gap: *gap, i, j, mode: modes[m], expected: refs[j][m].clone(), observed: second }));
                }
            }
        }
        (d, parses, None)
    }
}

pub fn run(z: usize, gaps: &[u32], only: Option<(u32, usize, usize)>) -> (u64, u64, Option<Mismatch>) {
    with_zoo(z, V { texts: zoo::pool(z), gaps: gaps.to_vec(), only })
}

impl Engine for SoakSim {
    fn name(&self) -> &'static str {
        "soaksim"
    }
    fn property(&self) -> &'static str {
        "C13"
    }
    fn cases(&self, _tier: &str) -> u64 {
        zoo::ZOO_NAMES.len() as u64
    }
    fn run_case(&self, seed: u64, idx: u64, tier: &str, acc: &mut Acc) -> u64 {
        let z = idx as usize % zoo::ZOO_NAMES.len();
        let gaps: &[u32] = if tier == "thorough" { &GAPS_THOROUGH } else { &GAPS_QUICK };
        let (d, parses, mm) = run(z, gaps, None);
        acc.inc("evaluations.cases");
        acc.add("evaluations.soak_parses(second parse of a pair, compared with a fresh parser)", parses / 2);
        acc.add("sim_steps.unrelated_parses_in_between", gaps.iter().map(|g| *g as u64).sum::<u64>() * zoo::pool(z).len() as u64);
        acc.inc(&format!("subject.zoo::{}", zoo::ZOO_NAMES[z]));
        acc.distinct("cases", fold(d, z as u64));
        acc.distinct("nontrivial_cases", fold(d, z as u64));
        if let Some(m) = mm {
            let texts = zoo::pool(z);
            acc.violations.push(Violation {
                property: "C13".into(),
                engine: "soaksim".into(),
                seed,
                case: idx,
                class: "soak-mismatch".into(),
                summary: format!(
                    "zoo::{}: parse({:?}), then {} parses of an unrelated parser, then {:?}({:?}) through the same value: expected={} observed={}",
                    zoo::ZOO_NAMES[z],
                    texts[m.i],
                    m.gap,
                    m.mode,
                    texts[m.j],
                    m.expected.brief(),
                    m.observed.brief()
                ),
                replay: json!({"engine": "soaksim", "property": "C13", "seed": seed, "case": idx, "class": "soak-mismatch", "soak": {"z": z, "grammar": zoo::ZOO_NAMES[z], "gap": m.gap, "first": m.i, "second": m.j, "first_text": texts[m.i], "second_text": texts[m.j]}}),
            });
        }
        d
    }
}
