//! Worker pool shared by all engines.
//!
//! parent: spawns ONE child process (`--child`) and supervises it (wall-clock watchdog, crash
//!         attribution through the journal), then writes evidence and prints VIOLATION lines.
//! child : W threads pull case indices from an atomic counter; before a case starts its index is
//!         written to the journal slot of that thread, so a SIGSEGV / abort / hang is attributed to
//!         at most W in-flight cases, which the parent re-runs one by one in fresh processes.
//!
//! Everything merged across threads is order-independent (sums, maxima, sets, min-index samples),
//! so the evidence does not depend on which thread ran which case.

use serde::{Deserialize, Serialize};
use serde_json::{json, Value};
use std::collections::{BTreeMap, HashSet};
use std::fs::{File, OpenOptions};
use std::os::unix::fs::FileExt;
use std::path::{Path, PathBuf};
use std::sync::atomic::{AtomicBool, AtomicU64, Ordering};
use std::sync::{Arc, Mutex};
use std::time::Instant;

#[derive(Clone, Debug, Serialize, Deserialize)]
pub struct Violation {
    pub property: String,
    pub engine: String,
    pub seed: u64,
    pub case: u64,
    pub class: String,
    pub summary: String,
    /// Self-contained replay document (engine specific).
    pub replay: Value,
}

/// Per-thread accumulator; merged at the end.
#[derive(Default)]
pub struct Acc {
    pub counters: BTreeMap<String, u64>,
    pub maxima: BTreeMap<String, u64>,
    pub distinct: BTreeMap<String, HashSet<u64>>,
    /// (case index, sample) — the lowest indices are kept, so samples are deterministic.
    pub samples: BTreeMap<String, BTreeMap<u64, Value>>,
    pub violations: Vec<Violation>,
    pub known: Vec<(u64, String)>,
}

impl Acc {
    pub fn add(&mut self, k: &str, n: u64) {
        if n > 0 {
            *self.counters.entry(k.to_string()).or_insert(0) += n;
        }
    }
    pub fn inc(&mut self, k: &str) {
        self.add(k, 1)
    }
    pub fn max(&mut self, k: &str, n: u64) {
        let e = self.maxima.entry(k.to_string()).or_insert(0);
        if n > *e {
            *e = n;
        }
    }
    pub fn distinct(&mut self, k: &str, d: u64) {
        self.distinct.entry(k.to_string()).or_default().insert(d);
    }
    pub fn sample(&mut self, k: &str, case: u64, keep: usize, v: impl FnOnce() -> Value) {
        let m = self.samples.entry(k.to_string()).or_default();
        if m.len() < keep || m.keys().next_back().map(|&last| case < last).unwrap_or(true) {
            m.insert(case, v());
            while m.len() > keep {
                let last = *m.keys().next_back().unwrap();
                m.remove(&last);
            }
        }
    }
    pub fn merge(&mut self, o: Acc) {
        for (k, v) in o.counters {
            *self.counters.entry(k).or_insert(0) += v;
        }
        for (k, v) in o.maxima {
            let e = self.maxima.entry(k).or_insert(0);
            *e = (*e).max(v);
        }
        for (k, v) in o.distinct {
            self.distinct.entry(k).or_default().extend(v);
        }
        for (k, v) in o.samples {
            let m = self.samples.entry(k).or_default();
            m.extend(v);
        }
        self.violations.extend(o.violations);
        self.known.extend(o.known);
    }
    pub fn trim_samples(&mut self, keep: usize) {
        for m in self.samples.values_mut() {
            while m.len() > keep {
                let last = *m.keys().next_back().unwrap();
                m.remove(&last);
            }
        }
    }
}

pub trait Engine: Sync {
    fn name(&self) -> &'static str;
    fn property(&self) -> &'static str;
    /// Number of cases for the tier.
    fn cases(&self, tier: &str) -> u64;
    /// Run one case. Must be a pure function of (seed, idx) and the code under test.
    /// Returns a digest of everything observable in the case (for the determinism guard).
    fn run_case(&self, seed: u64, idx: u64, tier: &str, acc: &mut Acc) -> u64;
    /// Stack size of worker threads.
    fn stack_bytes(&self) -> usize {
        64 << 20
    }
    /// Re-run a failing case on a brand-new thread before reporting it (engines whose property is
    /// about state carried between operations).
    fn confirm_on_fresh_thread(&self) -> bool {
        false
    }
}

/// Run `cases` in order on a brand-new OS thread; returns the violations of the last one.
pub fn run_sequence_isolated(engine: &dyn Engine, seed: u64, cases: &[u64], tier: &str) -> Vec<Violation> {
    std::thread::scope(|s| {
        std::thread::Builder::new()
            .stack_size(engine.stack_bytes())
            .spawn_scoped(s, move || {
                crate::hook::install_panic_hook();
                let mut last = Vec::new();
                for (i, c) in cases.iter().enumerate() {
                    let mut acc = Acc::default();
                    crate::build::case_arena_clear();
                    engine.run_case(seed, *c, tier, &mut acc);
                    if i + 1 == cases.len() {
                        last = acc.violations;
                    }
                }
                last
            })
            .expect("spawn isolated thread")
            .join()
            .expect("isolated thread panicked (harness)")
    })
}

fn confirm_isolated(engine: &dyn Engine, seed: u64, idx: u64, tier: &str, recent: &[u64], found: Vec<Violation>) -> Vec<Violation> {
    let alone = run_sequence_isolated(engine, seed, &[idx], tier);
    if !alone.is_empty() {
        return alone;
    }
    let mut n = 1;
    while n <= recent.len() {
        let mut seq: Vec<u64> = recent[recent.len() - n..].to_vec();
        seq.push(idx);
        let vs = run_sequence_isolated(engine, seed, &seq, tier);
        if let Some(v) = vs.into_iter().next() {
            let mut v = v;
            v.class = format!("{}(after-earlier-cases)", v.class);
            v.summary = format!("only after cases {:?} on the same thread: {}", &seq[..seq.len() - 1], v.summary);
            v.replay = json!({"engine": v.engine, "property": v.property, "seed": seed, "case": idx, "tier": tier, "regenerate": true, "sequence": seq, "class": v.class, "inner": v.replay});
            return vec![v];
        }
        if n == recent.len() {
            break;
        }
        n = (n * 2).min(recent.len());
    }
    // not reproducible in isolation: keep the original report; the parent's fresh-process replay
    // will withdraw it (exit 2) if it does not reproduce there either
    found
}

pub struct ChildOut {
    /// (case index, digest of everything observable in the case), sorted by index
    pub digests: Vec<(u64, u64)>,
    pub acc: Acc,
    pub cases_run: u64,
    pub wall_s: f64,
    pub nondeterminism: Vec<u64>,
}

pub fn run_threads(engine: &dyn Engine, seed: u64, tier: &str, first: u64, count: u64, workers: usize, journal: Option<&Path>, stop_on_violation: bool) -> ChildOut {
    let t0 = Instant::now();
    let next = AtomicU64::new(first);
    let end = first + count;
    let stop = AtomicBool::new(false);
    let merged = Mutex::new(Acc::default());
    let all_digests: Mutex<Vec<(u64, u64)>> = Mutex::new(Vec::new());
    let nondet = Mutex::new(Vec::new());
    let ran = AtomicU64::new(0);
    let jfile: Option<Arc<File>> = journal.map(|p| Arc::new(OpenOptions::new().create(true).write(true).truncate(true).open(p).expect("journal")));
    if let Some(f) = &jfile {
        // slot value u64::MAX = idle
        for t in 0..workers {
            f.write_all_at(&u64::MAX.to_le_bytes(), 8 * t as u64).unwrap();
        }
    }
    std::thread::scope(|s| {
        for t in 0..workers {
            let next = &next;
            let stop = &stop;
            let merged = &merged;
            let all_digests = &all_digests;
            let nondet = &nondet;
            let ran = &ran;
            let jfile = jfile.clone();
            std::thread::Builder::new()
                .name(format!("w{}", t))
                .stack_size(engine.stack_bytes())
                .spawn_scoped(s, move || {
                    crate::hook::install_panic_hook();
                    let mut acc = Acc::default();
                    let mut recent: Vec<u64> = Vec::new();
                    let mut digests: Vec<(u64, u64)> = Vec::new();
                    loop {
                        if stop.load(Ordering::Relaxed) {
                            break;
                        }
                        let idx = next.fetch_add(1, Ordering::Relaxed);
                        if idx >= end {
                            break;
                        }
                        if let Some(f) = &jfile {
                            let _ = f.write_all_at(&idx.to_le_bytes(), 8 * t as u64);
                        }
                        let nv = acc.violations.len();
                        crate::build::case_arena_clear();
                        let d = engine.run_case(seed, idx, tier, &mut acc);
                        ran.fetch_add(1, Ordering::Relaxed);
                        digests.push((idx, d));
                        if acc.violations.len() > nv && engine.confirm_on_fresh_thread() {
                            // The worker thread has run many cases before this one. Make the report
                            // self-contained: it must reproduce on a brand-new thread, alone or after a
                            // suffix of this worker's own case history (state carried from one parser
                            // value to another through a thread-local or a global).
                            let found = acc.violations.split_off(nv);
                            acc.violations.extend(confirm_isolated(engine, seed, idx, tier, &recent, found));
                        }
                        recent.push(idx);
                        if recent.len() > 64 {
                            recent.remove(0);
                        }
                        // in-run determinism guard: re-execute ~1% of the cases and compare digests
                        if crate::prng::mix64(idx ^ 0xD17E) % 100 == 0 {
                            let mut scratch = Acc::default();
                            crate::build::case_arena_clear();
                            let d2 = engine.run_case(seed, idx, tier, &mut scratch);
                            if d2 != d {
                                nondet.lock().unwrap().push(idx);
                            }
                        }
                        if acc.violations.len() > nv && stop_on_violation {
                            stop.store(true, Ordering::Relaxed);
                        }
                        if idx % 64 == 0 {
                            acc.trim_samples(8);
                        }
                    }
                    if let Some(f) = &jfile {
                        let _ = f.write_all_at(&u64::MAX.to_le_bytes(), 8 * t as u64);
                    }
                    merged.lock().unwrap().merge(acc);
                    all_digests.lock().unwrap().extend(digests);
                })
                .expect("spawn worker");
        }
    });
    let mut acc = merged.into_inner().unwrap();
    acc.trim_samples(6);
    acc.violations.sort_by_key(|v| v.case);
    let mut digests = all_digests.into_inner().unwrap();
    digests.sort();
    ChildOut { digests, acc, cases_run: ran.load(Ordering::Relaxed), wall_s: t0.elapsed().as_secs_f64(), nondeterminism: nondet.into_inner().unwrap() }
}

pub fn acc_to_json(out: &ChildOut) -> Value {
    let acc = &out.acc;
    let distinct: BTreeMap<&String, usize> = acc.distinct.iter().map(|(k, v)| (k, v.len())).collect();
    let samples: BTreeMap<&String, Vec<&Value>> = acc.samples.iter().map(|(k, m)| (k, m.values().collect())).collect();
    json!({
        "cases_run": out.cases_run,
        "wall_s": out.wall_s,
        "counters": acc.counters,
        "maxima": acc.maxima,
        "distinct": distinct,
        "samples": samples,
        "violations": acc.violations,
        "nondeterminism": out.nondeterminism,
    })
}

pub fn read_journal(p: &Path, workers: usize) -> Vec<u64> {
    let mut v = Vec::new();
    if let Ok(f) = File::open(p) {
        for t in 0..workers {
            let mut b = [0u8; 8];
            if f.read_exact_at(&mut b, 8 * t as u64).is_ok() {
                let x = u64::from_le_bytes(b);
                if x != u64::MAX {
                    v.push(x);
                }
            }
        }
    }
    v.sort();
    v.dedup();
    v
}

pub fn scratch_dir() -> PathBuf {
    let base = std::env::var("VERIF_SCRATCH").unwrap_or_else(|_| "/verif/sim/target/scratch".to_string());
    let p = PathBuf::from(base).join(format!("run-{}", std::process::id()));
    std::fs::create_dir_all(&p).expect("scratch dir");
    p
}
