mod build;
mod gram;
mod hook;
mod prng;
mod tok;
mod val;
mod thrsim {
    pub fn sched_point() {}
}

use chumsky::prelude::*;

fn main() {
    let mut rng = prng::Rng::new(1);
    for i in 0..20 {
        let cfg = gram::GenCfg::swarm(&mut rng, true);
        let g = gram::generate(&mut rng, &cfg);
        let inp = gram::gen_input(&g, &mut rng, cfg.nsym, 40);
        let toks: Vec<u8> = inp.iter().map(|s| b'a' + s).collect();
        let p = build::build::<&[u8]>(&g);
        let r = p.parse(&toks[..]);
        println!("{} {} {} -> out={} errs={}", i, gram::sexpr(&g), gram::show_input(&inp), r.has_output(), r.errors().len());
    }
}
