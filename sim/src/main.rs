mod build;
mod exotic;
mod soak;
mod gram;
mod histsim;
mod hook;
mod lifesim;
mod norm;
mod pool;
mod prng;
mod recsim;
mod rectypes;
mod sources;
mod srcsim;
mod tok;
mod val;
mod zoo;
mod thrsim;

use pool::{Engine, Violation};
use serde_json::{json, Value};
use std::path::{Path, PathBuf};
use std::process::{Command, Stdio};
use std::time::{Duration, Instant};

fn engine_by_name(n: &str) -> Box<dyn Engine> {
    match n {
        "srcsim" => Box::new(srcsim::SrcSim),
        "lifesim" => Box::new(lifesim::LifeSim),
        "histsim" => Box::new(histsim::HistSim),
        "recsim" => Box::new(recsim::RecSim),
        "thrsim" => Box::new(thrsim::ThrSim),
        "soaksim" => Box::new(soak::SoakSim),
        _ => {
            eprintln!("unknown engine {}", n);
            std::process::exit(2)
        }
    }
}

struct Args {
    v: Vec<String>,
}
impl Args {
    fn get(&self, k: &str) -> Option<&str> {
        self.v.iter().position(|a| a == k).and_then(|i| self.v.get(i + 1)).map(|s| s.as_str())
    }
    fn num(&self, k: &str) -> Option<u64> {
        self.get(k).map(|s| s.parse().unwrap_or_else(|_| harness_error(&format!("bad number for {}", k))))
    }
}

fn harness_error(msg: &str) -> ! {
    eprintln!("HARNESS-ERROR: {}", msg);
    std::process::exit(2)
}

fn workers_default() -> usize {
    std::env::var("VERIF_WORKERS").ok().and_then(|s| s.parse().ok()).unwrap_or_else(|| std::thread::available_parallelism().map(|n| n.get()).unwrap_or(8))
}

fn main() {
    let v: Vec<String> = std::env::args().collect();
    if v.len() < 2 {
        harness_error("usage: sim run|child|replay|minimise ...");
    }
    let args = Args { v: v.clone() };
    match v[1].as_str() {
        "run" => parent(&args),
        "child" => child(&args),
        "replay" => {
            hook::install_panic_hook();
            let code = replay_file(Path::new(&v[2]), true);
            std::process::exit(code)
        }
        "minimise" => {
            hook::install_panic_hook();
            minimise_file(Path::new(&v[2]), Path::new(&v[3]));
        }
        _ => harness_error("unknown subcommand"),
    }
}

// ------------------------------------------------------------------------------------------------

fn child(args: &Args) {
    let engine = engine_by_name(&args.v[2]);
    let tier = args.get("--tier").unwrap_or("quick").to_string();
    let seed = args.num("--seed").unwrap_or(1);
    let first = args.num("--first").unwrap_or(0);
    let count = args.num("--cases").unwrap_or_else(|| engine.cases(&tier));
    let workers = args.num("--workers").map(|n| n as usize).unwrap_or_else(workers_default);
    let out = PathBuf::from(args.get("--out").unwrap_or_else(|| harness_error("child needs --out")));
    let journal = args.get("--journal").map(PathBuf::from);
    hook::install_panic_hook();
    let res = pool::run_threads(&*engine, seed, &tier, first, count, workers, journal.as_deref(), true);
    let j = pool::acc_to_json(&res);
    if let Some(dp) = args.get("--digests") {
        // one line per case: the determinism selftest diffs these files across processes and worker counts
        let mut txt = String::new();
        for (i, d) in &res.digests {
            txt.push_str(&format!("{} {:016x}\n", i, d));
        }
        txt.push_str(&format!("counters {:016x}\n", prng::fold_bytes(1, serde_json::to_string(&j["counters"]).unwrap().as_bytes())));
        std::fs::write(dp, txt).unwrap_or_else(|e| harness_error(&format!("write digests: {}", e)));
    }
    std::fs::write(&out, serde_json::to_vec(&j).unwrap()).unwrap_or_else(|e| harness_error(&format!("write {}: {}", out.display(), e)));
}

fn run_with_timeout(cmd: &mut Command, secs: u64) -> (Option<std::process::ExitStatus>, bool) {
    let mut ch = cmd.spawn().unwrap_or_else(|e| harness_error(&format!("spawn: {}", e)));
    let t0 = Instant::now();
    loop {
        match ch.try_wait() {
            Ok(Some(st)) => return (Some(st), false),
            Ok(None) => {
                if t0.elapsed() > Duration::from_secs(secs) {
                    let _ = ch.kill();
                    let _ = ch.wait();
                    return (None, true);
                }
                std::thread::sleep(Duration::from_millis(20));
            }
            Err(e) => harness_error(&format!("wait: {}", e)),
        }
    }
}

struct EngineRun {
    name: String,
    child_json: Value,
    lines: Vec<String>,
    confirmed: usize,
    unconfirmed: bool,
    planned: u64,
}

/// Run one engine in a supervised child process; minimise, persist and re-confirm what it reports.
#[allow(clippy::too_many_arguments)]
fn run_engine(ename: &str, tier: &str, seed: u64, first: u64, count: u64, workers: usize, timeout: u64) -> EngineRun {
    let engine = engine_by_name(ename);
    println!("VERIF_SEED={} engine={} property={} tier={} cases={}..{} workers={}", seed, ename, engine.property(), tier, first, first + count, workers);
    let scratch = pool::scratch_dir().join(ename);
    std::fs::create_dir_all(&scratch).ok();
    let out = scratch.join("child.json");
    let journal = scratch.join("journal.bin");
    let exe = std::env::current_exe().unwrap();
    let mut cmd = Command::new(&exe);
    cmd.args(["child", ename, "--tier", tier, "--seed", &seed.to_string(), "--first", &first.to_string(), "--cases", &count.to_string(), "--workers", &workers.to_string()])
        .arg("--out")
        .arg(&out)
        .arg("--journal")
        .arg(&journal)
        .stdin(Stdio::null());
    let (st, timed_out) = run_with_timeout(&mut cmd, timeout);
    let mut violations: Vec<Violation> = Vec::new();
    let mut child_json: Value = json!({});
    let mut died_unattributed = false;
    let clean = st.map(|s| s.success()).unwrap_or(false);
    if clean {
        child_json = serde_json::from_slice(&std::fs::read(&out).unwrap_or_else(|e| harness_error(&format!("child output: {}", e)))).unwrap_or_else(|e| harness_error(&format!("child json: {}", e)));
        if let Some(nd) = child_json["nondeterminism"].as_array() {
            if !nd.is_empty() {
                harness_error(&format!("in-run determinism guard: cases {:?} gave different digests on re-execution", nd));
            }
        }
        if let Some(m) = child_json["counters"].as_object() {
            if let Some((k, v)) = m.iter().find(|(k, _)| k.starts_with("HARNESS.")) {
                harness_error(&format!("harness self-check failed: {} = {}", k, v));
            }
        }
        violations = serde_json::from_value(child_json["violations"].clone()).unwrap_or_default();
    } else {
        // crash or hang: attribute through the journal, re-run each in-flight case alone
        let inflight = pool::read_journal(&journal, workers);
        println!("child ended abnormally (timed_out={} status={:?}); in-flight cases: {:?}", timed_out, st, inflight);
        for idx in inflight {
            let o2 = scratch.join(format!("single-{}.json", idx));
            let mut c = Command::new(&exe);
            c.args(["child", ename, "--tier", tier, "--seed", &seed.to_string(), "--first", &idx.to_string(), "--cases", "1", "--workers", "1"]).arg("--out").arg(&o2).stdin(Stdio::null());
            let (st2, to2) = run_with_timeout(&mut c, 120);
            let ok2 = st2.map(|s| s.success()).unwrap_or(false);
            if !ok2 {
                violations.push(Violation {
                    property: engine.property().into(),
                    engine: ename.to_string(),
                    seed,
                    case: idx,
                    class: if to2 { "hang".into() } else { "crash".into() },
                    summary: format!("worker process died running case {} alone (timed_out={}, status={:?})", idx, to2, st2),
                    replay: if ename == "lifesim" {
                        json!({"engine": ename, "property": engine.property(), "seed": seed, "case": idx, "class": if to2 {"hang"} else {"crash"}, "detail": format!("worker died: {:?}", st2), "spec": lifesim::gen_case(seed, idx, tier)})
                    } else {
                        json!({"engine": ename, "property": engine.property(), "seed": seed, "case": idx, "tier": tier, "regenerate": true, "class": if to2 {"hang"} else {"crash"}})
                    },
                });
            } else if let Ok(b) = std::fs::read(&o2) {
                if let Ok(j) = serde_json::from_slice::<Value>(&b) {
                    let vs: Vec<Violation> = serde_json::from_value(j["violations"].clone()).unwrap_or_default();
                    violations.extend(vs);
                }
            }
        }
        if violations.is_empty() {
            println!("note: the child process died but no in-flight case reproduces the death alone");
            died_unattributed = true;
        }
    }

    // report: minimise, write replay files, confirm in a fresh process
    let replays = PathBuf::from(std::env::var("VERIF_REPLAYS").unwrap_or_else(|_| "/verif/replays".into()));
    let confirm = |violations: &[Violation]| -> (usize, Vec<String>) {
        let mut confirmed = 0;
        let mut lines = Vec::new();
        for v in violations.iter().take(3) {
            std::fs::create_dir_all(&replays).ok();
            let raw = replays.join(format!("{}-{}-{}-{}.raw.json", v.property, v.engine, v.seed, v.case));
            std::fs::write(&raw, serde_json::to_vec_pretty(&v.replay).unwrap()).unwrap();
            let min = replays.join(format!("{}-{}-{}-{}.json", v.property, v.engine, v.seed, v.case));
            let mut mc = Command::new(&exe);
            mc.arg("minimise").arg(&raw).arg(&min).stdin(Stdio::null()).stdout(Stdio::null());
            let (ms, _) = run_with_timeout(&mut mc, 300);
            if !ms.map(|s| s.success()).unwrap_or(false) || !min.exists() {
                std::fs::copy(&raw, &min).ok();
            }
            // replay in a fresh process: must fail the same way
            let mut rc = Command::new(&exe);
            rc.arg("replay").arg(&min).stdin(Stdio::null()).stdout(Stdio::null());
            let (rs, rto) = run_with_timeout(&mut rc, 300);
            let reproduced = rto || rs.map(|s| s.code() == Some(1) || s.code().is_none()).unwrap_or(true);
            if reproduced {
                confirmed += 1;
                println!("violation: {}", v.summary);
                lines.push(format!("VIOLATION property={} replay={}", v.property, min.display()));
            } else {
                println!("note: the violation reported for case {} did not reproduce from {} in a fresh process (withdrawn)", v.case, min.display());
            }
        }
        (confirmed, lines)
    };
    let (mut confirmed, mut lines) = confirm(&violations);
    if ((!violations.is_empty() && confirmed == 0) || died_unattributed) && workers > 1 {
        // Nothing the worker THREADS of the child reported reproduces alone. Those threads run different
        // cases at the same time in one process, which the simulator does not schedule: state that the
        // library keeps per process lets one case disturb another there, and such a report cannot
        // replay. Second pass with that source of nondeterminism removed: the same case range split over
        // `workers` PROCESSES with one worker thread each (every thread of such a process belongs to one
        // case and runs under that case's own scheduler); what they report is confirmed as above.
        println!("isolation pass: re-running cases {}..{} as {} single-worker processes", first, first + count, workers);
        let mut kids = Vec::new();
        let per = count.div_ceil(workers as u64).max(1);
        for w in 0..workers as u64 {
            let f = first + w * per;
            if f >= first + count {
                break;
            }
            let n = per.min(first + count - f);
            let o = scratch.join(format!("iso-{}.json", w));
            let jn = scratch.join(format!("iso-{}.journal", w));
            let mut c = Command::new(&exe);
            c.args(["child", ename, "--tier", tier, "--seed", &seed.to_string(), "--first", &f.to_string(), "--cases", &n.to_string(), "--workers", "1"]).arg("--out").arg(&o).arg("--journal").arg(&jn).stdin(Stdio::null());
            match c.spawn() {
                Ok(ch) => kids.push((ch, o, f, n)),
                Err(e) => harness_error(&format!("spawn: {}", e)),
            }
        }
        let mut iso: Vec<Violation> = Vec::new();
        let t0 = Instant::now();
        for (mut ch, o, f, n) in kids {
            // (same overall limit as the first pass)
            let st = loop {
                match ch.try_wait() {
                    Ok(Some(st)) => break Some(st),
                    Ok(None) if t0.elapsed() > Duration::from_secs(timeout) => {
                        let _ = ch.kill();
                        let _ = ch.wait();
                        break None;
                    }
                    Ok(None) => std::thread::sleep(Duration::from_millis(20)),
                    Err(e) => harness_error(&format!("wait: {}", e)),
                }
            };
            if !st.map(|s| s.success()).unwrap_or(false) {
                // a single-worker process: the journal names the one case in flight; the death replays as
                // "this process again, up to that case" (what the cases before it left behind on the
                // thread is part of the reproduction)
                let jn = o.with_extension("journal");
                let at = pool::read_journal(&jn, 1).first().copied().unwrap_or(f + n - 1);
                println!("isolation pass: the process for cases {}..{} ended abnormally ({:?}) in case {}", f, f + n, st, at);
                iso.push(Violation {
                    property: engine.property().into(),
                    engine: ename.to_string(),
                    seed,
                    case: at,
                    class: if st.is_none() { "hang".into() } else { "crash".into() },
                    summary: format!("single-worker process died (status={:?}) in case {} after running cases {}..{} in order", st, at, f, at),
                    replay: json!({"engine": ename, "property": engine.property(), "seed": seed, "case": at, "tier": tier, "regenerate": true, "range": [f, at - f + 1], "class": if st.is_none() {"hang"} else {"crash"}}),
                });
                continue;
            }
            if let Ok(b) = std::fs::read(&o) {
                if let Ok(j) = serde_json::from_slice::<Value>(&b) {
                    let vs: Vec<Violation> = serde_json::from_value(j["violations"].clone()).unwrap_or_default();
                    iso.extend(vs);
                }
            }
        }
        iso.sort_by_key(|v| v.case);
        println!("isolation pass: {} violation(s) reported", iso.len());
        let (c2, l2) = confirm(&iso);
        confirmed = c2;
        lines = l2;
        if confirmed == 0 {
            println!("HARNESS-ERROR: {} violation(s) / an unattributed death were reported by worker threads sharing one process, none reproduces alone and single-worker processes report none that does", violations.len());
        }
    }
    std::fs::remove_dir_all(&scratch).ok();
    EngineRun { name: ename.to_string(), child_json, lines, confirmed, unconfirmed: (!violations.is_empty() || died_unattributed) && confirmed == 0, planned: count }
}

fn parent(args: &Args) {
    let t0 = Instant::now();
    let what = args.v[2].clone();
    let tier = args.get("--tier").map(|s| s.to_string()).or_else(|| std::env::var("VERIF_TIER").ok()).unwrap_or_else(|| "quick".into());
    let seed = args.num("--seed").or_else(|| std::env::var("VERIF_SEED").ok().and_then(|s| s.parse().ok())).unwrap_or(1);
    let first = args.num("--first").unwrap_or(0);
    let workers = args.num("--workers").map(|n| n as usize).unwrap_or_else(workers_default);
    let evidence_path = args.get("--evidence").map(PathBuf::from);
    let timeout = args.num("--timeout").unwrap_or(if tier == "thorough" { 7200 } else { 900 });
    // "c13" = every layer that decides C13 (histories, schedules; Miri in the thorough tier)
    let names: Vec<&str> = match what.as_str() {
        "c13" => vec!["histsim", "thrsim", "soaksim"],
        "c12" => vec!["lifesim", "recsim"],
        _ => vec![what.as_str()],
    };
    let mut runs = Vec::new();
    for n in &names {
        let e = engine_by_name(n);
        // (the soak layer is a fixed case list and needs a process with a single worker thread)
        let count = if *n == "soaksim" { e.cases(&tier) } else { args.num("--cases").unwrap_or_else(|| e.cases(&tier)) };
        let r = run_engine(n, &tier, seed, first, count, if *n == "soaksim" { 1 } else { workers }, timeout);
        let stop = !r.lines.is_empty();
        runs.push(r);
        if stop {
            break;
        }
    }
    let mut miri: Option<Value> = None;
    let mut miri_lines: Vec<String> = Vec::new();
    if what == "c13" && runs.iter().all(|r| r.lines.is_empty()) && std::env::var("VERIF_MIRI").map(|v| v != "0").unwrap_or(true) {
        let (j, lines) = miri_layer(seed, &tier);
        miri = Some(j);
        miri_lines = lines;
    }
    let property = engine_by_name(names[0]).property();
    let confirmed: usize = runs.iter().map(|r| r.confirmed).sum::<usize>() + miri_lines.len();
    if let Some(p) = &evidence_path {
        let ev = evidence(property, &tier, seed, &runs, miri.as_ref(), t0.elapsed().as_secs_f64(), confirmed);
        if let Some(d) = p.parent() {
            std::fs::create_dir_all(d).ok();
        }
        std::fs::write(p, serde_json::to_vec_pretty(&ev).unwrap()).unwrap_or_else(|e| harness_error(&format!("write evidence: {}", e)));
    }
    let mut any = false;
    for r in &runs {
        for l in &r.lines {
            println!("{}", l);
            any = true;
        }
    }
    for l in &miri_lines {
        println!("{}", l);
        any = true;
    }
    if any {
        std::process::exit(1);
    }
    if runs.iter().any(|r| r.unconfirmed) {
        std::process::exit(2);
    }
    for r in &runs {
        println!("OK property={} engine={} cases={} wall_s={:.1}", property, r.name, r.child_json["cases_run"], r.child_json["wall_s"].as_f64().unwrap_or(0.0));
    }
    if let Some(m) = &miri {
        println!("OK property={} engine=miri seeds={} wall_s={:.1}", property, m["seeds_run"], m["wall_s"].as_f64().unwrap_or(0.0));
    }
}

/// Miri layer of C13: real std threads under Miri's seeded pre-emptive scheduler with the data-race
/// and aliasing detectors on (64 seeds in the thorough tier, 3 in the quick tier; VERIF_MIRI=0
/// switches it off, VERIF_MIRI_SEEDS overrides the count). Returns (evidence object, VIOLATION lines).
fn miri_layer(seed: u64, tier: &str) -> (Value, Vec<String>) {
    let t0 = Instant::now();
    let nseeds: u64 = std::env::var("VERIF_MIRI_SEEDS").ok().and_then(|s| s.parse().ok()).unwrap_or(if tier == "thorough" { 64 } else { 3 });
    let base = seed.wrapping_mul(1000) % 1_000_000;
    let dir = std::env::var("VERIF_MIRI_DIR").unwrap_or_else(|_| "/verif/miri".into());
    // single-threaded self-check: the program must build and pass with one client thread, otherwise a
    // failing seed says nothing about sharing between threads (harness error, exit 2). Up front in the
    // thorough tier; in the quick tier only when a seed has failed.
    let selfcheck = |dir: &str| {
        let build = Command::new("cargo").args(["+nightly", "miri", "run", "--offline", "-q", "--", "selfcheck"]).current_dir(dir).env("MIRIFLAGS", "-Zmiri-disable-isolation").stdin(Stdio::null()).output();
        let ok_build = build.as_ref().map(|o| o.status.success()).unwrap_or(false);
        if !ok_build {
            let msg = build.map(|o| String::from_utf8_lossy(&o.stderr).chars().rev().take(1500).collect::<String>().chars().rev().collect::<String>()).unwrap_or_else(|e| e.to_string());
            harness_error(&format!("miri layer does not build/run: {}", msg));
        }
    };
    if tier == "thorough" {
        selfcheck(&dir);
    }
    // one process: -Zmiri-many-seeds already spreads the seeds over all cores
    let mut children = Vec::new();
    {
        let (lo, hi) = (base, base + nseeds);
        let ch = Command::new("cargo")
            .args(["+nightly", "miri", "run", "--offline", "-q", "--", "run"])
            .current_dir(&dir)
            .env("MIRIFLAGS", format!("-Zmiri-many-seeds={}..{} -Zmiri-many-seeds-keep-going -Zmiri-preemption-rate=0.1 -Zmiri-disable-isolation", lo, hi))
            .stdin(Stdio::null())
            .stdout(Stdio::piped())
            .stderr(Stdio::piped())
            .spawn()
            .unwrap_or_else(|e| harness_error(&format!("spawn miri: {}", e)));
        children.push((lo, hi, ch));
    }
    let mut lines = Vec::new();
    let mut seeds_run = 0u64;
    let mut ops = 0u64;
    let mut failures = Vec::new();
    for (lo, hi, ch) in children {
        let out = ch.wait_with_output().unwrap_or_else(|e| harness_error(&format!("miri wait: {}", e)));
        let so = String::from_utf8_lossy(&out.stdout).to_string();
        let se = String::from_utf8_lossy(&out.stderr).to_string();
        for l in so.lines() {
            if let Some(rest) = l.strip_prefix("MIRI-OK ops=") {
                seeds_run += 1;
                ops += rest.trim().parse::<u64>().unwrap_or(0);
            }
        }
        if !out.status.success() {
            // find which seeds failed: "Trying seed: N" / "FAILING SEED: N" lines in stderr
            let failing: Vec<String> = se.lines().map(|l| l.trim()).filter(|l| l.starts_with("FAILING SEED")).map(|s| s.to_string()).collect();
            failures.push(json!({"seed_range": [lo, hi], "failing": failing, "stderr_tail": se.chars().rev().take(3000).collect::<String>().chars().rev().collect::<String>(), "stdout_tail": so.chars().rev().take(1000).collect::<String>().chars().rev().collect::<String>()}));
        }
    }
    if !failures.is_empty() {
        if tier != "thorough" {
            selfcheck(&dir);
        }
        let replays = PathBuf::from(std::env::var("VERIF_REPLAYS").unwrap_or_else(|_| "/verif/replays".into()));
        std::fs::create_dir_all(&replays).ok();
        let p = replays.join(format!("C13-miri-{}.json", seed));
        std::fs::write(&p, serde_json::to_vec_pretty(&json!({"engine": "miri", "property": "C13", "seed": seed, "failures": failures, "how_to_replay": "cd /verif/miri && MIRIFLAGS='-Zmiri-seed=<failing seed> -Zmiri-preemption-rate=0.1 -Zmiri-disable-isolation' cargo +nightly miri run --offline -- run"})).unwrap()).unwrap();
        lines.push(format!("VIOLATION property=C13 replay={}", p.display()));
    }
    let j = json!({
        "engine": "miri",
        "seeds_run": seeds_run,
        "seed_range": [base, base + nseeds],
        "operations_checked": ops,
        "wall_s": t0.elapsed().as_secs_f64(),
        "what": "3 real std::thread clients share Arc<dyn Parser + Send + Sync> zoo grammars and a static Cache under Miri's seeded pre-emptive scheduler (-Zmiri-preemption-rate=0.1) with data-race and aliasing detection; every result is compared with a fresh sequential parse",
        "failures": failures.len(),
    });
    (j, lines)
}

fn coverage_for(engine: &dyn Engine, cj: &Value, planned: u64) -> Value {
    let cases = cj["cases_run"].as_u64().unwrap_or(0);
    let counters = &cj["counters"];
    let evals = match engine.name() {
        "histsim" => counters["evaluations.history_parses"].as_u64().unwrap_or(cases),
        "recsim" => counters["evaluations.comparisons_with_unrolling"].as_u64().unwrap_or(cases),
        "thrsim" => counters["evaluations.executions"].as_u64().unwrap_or(cases),
        "soaksim" => counters["evaluations.soak_parses(second parse of a pair, compared with a fresh parser)"].as_u64().unwrap_or(cases),
        _ => counters["evaluations.replica_runs"].as_u64().unwrap_or(cases),
    }
    .max(1);
    let simulated = match engine.name() {
        "lifesim" => "thread stack size (resource limit), lifecycle history, nesting depth; crash containment by process boundary",
        "recsim" => "how the self-reference is realised (recursive() / declare-define / expanded k times without Recursive), the handle lifecycle (value, clone after dropping the original, re-boxed clone, second use) and, in 1/8 of the cases, the thread stack size",
        "histsim" => "the operation history (which handle, which wrapper, which input, clone/drop/move order) and the aborted-parse fault (panic injected at the k-th user callback); sources behind Stream/IoInput subjects are SimIter/SimReader",
        "thrsim" => "the thread scheduler (real OS threads released one at a time by a baton; the recording scheduler decides who runs next at every user callback and every source call), the sources (SimIter/SimReader), the aborted-parse fault",
        "soaksim" => "the operation history: two parses through one long-lived value with exactly 255 / 256 / 65 535 / 65 536 (... thorough: more) parses of an unrelated parser in between, in a process with a single worker thread",
        _ => "Read+Seek device (SimReader), pull iterators (SimIter, SimCloneIter); every decision from the case PRNG / the recorded trace",
    };
    let child_wall = cj["wall_s"].as_f64().unwrap_or(1.0).max(1e-9);
    let mut cov = json!({
        "evaluations": evals,
        "distinct_nontrivial": cj["distinct"]["nontrivial_cases"].as_u64().unwrap_or(0),
        "rule": rule_text(engine.name()),
        "samples": cj["samples"]["samples"],
        "exhaustive": false,
        "engine": engine.name(),
        "cases_planned": planned,
        "cases_run": cases,
        "distinct_cases_by_outcome_digest": cj["distinct"]["cases"],
        "simulated_runs_per_hour": (evals as f64 / child_wall * 3600.0) as u64,
        "cases_per_hour": (cases as f64 / child_wall * 3600.0) as u64,
        "simulated_time": "chumsky has no clock, timer or deadline; logical time = seam events (token ticks + user callbacks + source calls + scheduler decisions), reported under counters.sim_steps.*",
        "counters": counters,
        "maxima": cj["maxima"],
        "real_vs_stub": {
            "real": "all of chumsky, unmodified, compiled from /repo's working tree (features std, stacker, memoization, extension, pratt, either, bytes, regex, unstable)",
            "simulated": simulated,
            "stubbed_inside_chumsky": "nothing"
        }
    });
    if engine.name() == "thrsim" {
        cov["distinct_interleavings"] = cj["distinct"]["interleavings"].clone();
    }
    if engine.name() == "histsim" {
        cov["exhaustive_subspace"] = json!({
            "histories": counters["exhaustive_subspace.histories"],
            "what": "for each of the 21 zoo grammars (9 over Rich errors, 12 over EmptyErr / Cheap / Simple) x 3 handle disciplines (same value / fresh clone per step / fresh wrapper per step with drops): ALL histories of length <= 4 (quick) / <= 6 (thorough) over a pool of 4 inputs — complete for that sub-space only",
        });
    }
    cov
}

fn evidence(property: &str, tier: &str, seed: u64, runs: &[EngineRun], miri: Option<&Value>, wall: f64, violations: usize) -> Value {
    let covs: Vec<(String, Value)> = runs.iter().map(|r| (r.name.clone(), coverage_for(&*engine_by_name(&r.name), &r.child_json, r.planned))).collect();
    let mut assum: Vec<String> = Vec::new();
    for r in runs {
        assum.extend(assumptions(&r.name));
    }
    let coverage = if covs.len() == 1 && miri.is_none() {
        covs[0].1.clone()
    } else {
        let mut samples: Vec<Value> = Vec::new();
        let mut layers = serde_json::Map::new();
        let mut evals = 0u64;
        let mut nontriv = 0u64;
        let mut rules = Vec::new();
        for (n, c) in &covs {
            evals += c["evaluations"].as_u64().unwrap_or(0);
            nontriv += c["distinct_nontrivial"].as_u64().unwrap_or(0);
            rules.push(format!("[{}] {}", n, c["rule"].as_str().unwrap_or("")));
            if let Some(a) = c["samples"].as_array() {
                samples.extend(a.iter().take(3).cloned());
            }
            layers.insert(n.clone(), c.clone());
        }
        if let Some(m) = miri {
            layers.insert("miri".into(), m.clone());
            assum.push("miri layer: Miri's scheduler and race detector are trusted; chumsky is built without the stacker feature there (psm is assembly)".into());
        }
        json!({
            "evaluations": evals.max(1),
            "distinct_nontrivial": nontriv,
            "rule": rules.join("  ||  "),
            "samples": samples,
            "exhaustive": false,
            "layers": layers,
        })
    };
    json!({
        "property_id": property,
        "tier": tier,
        "seed": seed,
        "level": "exploration",
        "wall_s": wall,
        "violations": violations,
        "coverage": coverage,
        "assumptions": assum,
    })
}

fn rule_text(engine: &str) -> String {
    match engine {
        "srcsim" => "case = seeded (grammar AST, 1-3 token strings); each string is parsed (parse and check) through every applicable input kind fed by a simulated source whose per-call behaviour (chunk sizes, EINTR, cut points, size_hint) is drawn from the case PRNG; evaluations = replica runs compared with the &[T] reference. distinct_nontrivial = distinct (case digest, kind, policy) where the reference consumed >= 2 tokens AND the replica's source actually saw a backward reposition / short read / EINTR (reader) or served a rewind from its cache / by cloning (iterators)".into(),
        "recsim" => "case = a generated grammar containing a recursive definition with guarded self-references (the C01/C02/C08 node set inside and around it, no memoization) + 1-3 inputs of <= 40 tokens + a handle lifecycle (value | clone, drop original | re-box a clone, drop the others | use twice); the grammar is built three ways: recursive(), Recursive::declare()+define(), and with the self-reference expanded (input length + 2) times using plain combinators and no Recursive; evaluations = comparisons of a recursive form with the unrolling (parse and check), full equality incl. every error. distinct_nontrivial = distinct (grammar, outcomes) with an input of >= 3 tokens".into(),
        "histsim" => "case = one grammar value (generated Boxed grammar for &[u8] / &str / Stream / IoInput, the same grammar as a tree of &dyn references, a statically typed zoo grammar, or a Cache) + a pool of 2-5 inputs + a seeded history of <= 13 operations (parse / check / *_with_state through value, &, &&, Box, Rc, Arc, boxed(), Either, stacks of those, Cache::get(); derive wrapper, clone, drop incl. the original, move; aborted parse = panic injected at the k-th user callback; re-entrant parse = a second parse started inside the k-th user callback of the first); a third of the generated subjects are built from clones of every combinator node, a tenth are composed through &dyn references at every node and compared with the boxed() build; evaluations = parses performed inside histories, each compared with a brand-new parser on the same input (references computed before and after the history, on pristine OS threads in 1/8 of the cases). distinct_nontrivial = distinct (subject, history, outcomes) digests where the history contains an accepted AND a rejected parse, or an aborted parse that fired followed by another parse, AND either a drop/move/derive or >= 3 parses".into(),
        "thrsim" => "case = one shared Sync parser (generated grammar as &dyn Parser+Send+Sync over &[u8] / Stream / IoInput, zoo grammar as Arc<dyn Parser+Send+Sync>, or a static Cache) + 2-8 client tasks with 1-4 operations each (1/3 of the cases abort some operations mid-parse) + 10 (quick) / 16 (thorough) schedules: sequential, round-robin, then seeded uniform-random / sticky-random / PCT-style; a context switch can happen at every user callback and every source call; evaluations = executions (one schedule of one case), each operation compared with a brand-new parser used alone. distinct_nontrivial = distinct (case, switch sequence) with >= 2 context switches that pre-empt a client in the middle of a parse".into(),
        "soaksim" => "case = one zoo grammar; for every gap and every (first, second) input pair (each input after a same-length partner where the pool has one): parse the first input, run `gap` parses of an unrelated parser, parse or check the second input through the same value; evaluations = second parses, each compared with a brand-new parser. Deterministic (no PRNG draw): the case list is the zoo".into(),
        "lifesim" => "case = seeded (template, recursive()/declare-define form, 0-12 neutral wrappers between two recursion guards, thread stack size 64 KiB..8 MiB, nesting depth: exhaustive 0..64 then log-uniform up to 10^4 / 10^5 / 10^6, input variant well-formed | truncated | wrong token | surplus token, lifecycle history of <= 11 ops: clone, drop (incl. the original handle), boxed, parse, check, define-again); evaluations = cases. distinct_nontrivial = distinct cases with (depth >= 1000 on a stack <= 256 KiB) OR (>= 3 lifecycle ops with a drop or define-again before the final parse)".into(),
        _ => String::new(),
    }
}

fn assumptions(engine: &str) -> Vec<String> {
    match engine {
        "srcsim" => vec![
            "the &[T] input is the single-copy reference: representations are compared with it, not with an independent PEG semantics".into(),
            "only contract-legal source behaviour (any chunking, EINTR, EOF, loose size_hint) carries the equality oracle; hard I/O errors are characterised and can never raise a violation".into(),
            "error descriptions (found/expected/messages) are not part of C10 and are only counted when they differ".into(),
            "empty spans of mapped (token,span) inputs are compared among mapped kinds only".into(),
            "seeded sampling: a clean run is evidence, not proof".into(),
        ],
        "recsim" => vec![
            "the unrolling is built by the same builder from the same AST with Rec realised as k nested copies; level 0 always fails with a marker message and reaching it is a harness error (exit 2), never a violation".into(),
            "memoized() is excluded inside these grammars: memo keys are node addresses, and the unrolling has k nodes where the recursion has one (memoization transparency is C11, not decided by this family)".into(),
            "well-formedness by construction: every self-reference is reached only after a token was consumed".into(),
        ],
        "histsim" => vec![
            "reference = a brand-new parser built from the same grammar on the same input (same abort point): chumsky compared with chumsky, no independent semantics".into(),
            "a panic that occurs identically in the reference and in the history (reachable unwraps in the tree, e.g. memoized + recover_with) is an equal outcome, not a violation".into(),
            "re-entrant parsing from inside a callback is outside the statement and is not generated".into(),
            "seeded sampling plus one small exhaustively enumerated sub-space: a clean run is evidence, not proof".into(),
        ],
        "thrsim" => vec![
            "clients are real OS threads but only one runs at a time: a switch can only happen where the parser calls out (user closure, source call); a shared read-modify-write with no call-out inside is atomic here - the Miri layer (thorough tier) covers that gap".into(),
            "only Sync-capable grammars: no Recursive/Boxed (Rc) inside the shared parser".into(),
            "reference = a brand-new parser used alone, computed before and after the concurrent executions".into(),
        ],
        "lifesim" => vec![
            "oracle 1 (openers <= unroll bound): full equality, errors included, with the same grammar unrolled with plain combinators and no Recursive, run on a separate 2 GiB-stack thread".into(),
            "oracle 2 (deeper): generator-known acceptance and output, used only for templates whose shallow calibration against the unrolling agrees; error content there is not compared".into(),
            "oracle 3: the worker process survives; a death is attributed through the journal and re-run alone".into(),
            "oracle 4: a second define() panics with the define-once message naming the caller's file, and later parses are unchanged".into(),
            "the harness's own frames on the smallest (64 KiB) stack are assumed to fit; selftest 'stackmargin' measures this at 32 KiB".into(),
            "seeded sampling: a clean run is evidence, not proof".into(),
        ],
        _ => vec![],
    }
}

// ------------------------------------------------------------------------------------------------

fn replay_file(p: &Path, verbose: bool) -> i32 {
    let v: Value = serde_json::from_slice(&std::fs::read(p).unwrap_or_else(|e| harness_error(&format!("read {}: {}", p.display(), e)))).unwrap_or_else(|e| harness_error(&format!("parse replay: {}", e)));
    let engine = v["engine"].as_str().unwrap_or("");
    if engine == "miri" {
        // replay = the failing Miri seed (Miri's scheduler is a deterministic function of it)
        let mut seeds: Vec<u64> = Vec::new();
        for f in v["failures"].as_array().cloned().unwrap_or_default() {
            for l in f["failing"].as_array().cloned().unwrap_or_default() {
                if let Some(n) = l.as_str().and_then(|s| s.rsplit(' ').next()).and_then(|s| s.trim().parse::<u64>().ok()) {
                    seeds.push(n);
                }
            }
        }
        seeds.sort();
        let Some(seed) = seeds.first().copied() else { harness_error("miri replay: no failing seed recorded") };
        let dir = std::env::var("VERIF_MIRI_DIR").unwrap_or_else(|_| "/verif/miri".into());
        let out = Command::new("cargo")
            .args(["+nightly", "miri", "run", "--offline", "-q", "--", "run"])
            .current_dir(&dir)
            .env("MIRIFLAGS", format!("-Zmiri-seed={} -Zmiri-preemption-rate=0.1 -Zmiri-disable-isolation", seed))
            .stdin(Stdio::null())
            .output()
            .unwrap_or_else(|e| harness_error(&format!("spawn miri: {}", e)));
        if out.status.success() {
            if verbose {
                println!("not reproduced (miri seed {})", seed);
            }
            return 0;
        }
        if verbose {
            let se = String::from_utf8_lossy(&out.stderr);
            let first = se.lines().find(|l| l.starts_with("error")).unwrap_or("");
            println!("reproduced property=C13 engine=miri seed={}\n {}", seed, first);
        }
        return 1;
    }
    if v["regenerate"].as_bool() == Some(true) && v.get("range").is_some() {
        // a death that needs the cases before it on the same thread: the same single-worker process again
        let (f, n) = (v["range"][0].as_u64().unwrap_or(0), v["range"][1].as_u64().unwrap_or(1));
        let out = std::env::temp_dir().join(format!("verif-range-replay-{}.json", std::process::id()));
        let mut c = Command::new(std::env::current_exe().unwrap());
        c.args(["child", engine, "--tier", v["tier"].as_str().unwrap_or("quick"), "--seed", &v["seed"].as_u64().unwrap_or(1).to_string(), "--first", &f.to_string(), "--cases", &n.to_string(), "--workers", "1"]).arg("--out").arg(&out).stdin(Stdio::null());
        let (st, to) = run_with_timeout(&mut c, 280);
        std::fs::remove_file(&out).ok();
        let died = to || !st.map(|s| s.success()).unwrap_or(false);
        if verbose {
            println!("{}", if died { format!("reproduced: the single-worker process for cases {}..{} died again ({:?})", f, f + n, st) } else { "not reproduced".into() });
        }
        return if died { 1 } else { 0 };
    }
    if v["regenerate"].as_bool() == Some(true) {
        // crash / hang cases: regenerate from (seed, case) — the run itself is the reproduction
        let e = engine_by_name(engine);
        let mut acc = pool::Acc::default();
        let tier = v["tier"].as_str().unwrap_or("quick");
        if let Some(seq) = v["sequence"].as_array() {
            // a case that only fails after earlier cases ran on the same thread
            let seq: Vec<u64> = seq.iter().filter_map(|x| x.as_u64()).collect();
            acc.violations = pool::run_sequence_isolated(&*e, v["seed"].as_u64().unwrap(), &seq, tier);
        } else {
            e.run_case(v["seed"].as_u64().unwrap(), v["case"].as_u64().unwrap(), tier, &mut acc);
        }
        if let Some(vi) = acc.violations.first() {
            if verbose {
                println!("reproduced: {}", vi.summary);
            }
            return 1;
        }
        if verbose {
            println!("not reproduced");
        }
        return 0;
    }
    match engine {
        "srcsim" if v.get("exotic").is_some() => {
            let ty = v["exotic"]["ty"].as_u64().unwrap_or(0) as u8;
            let sh = v["exotic"]["shape"].as_u64().unwrap_or(0) as u8;
            let syms: Vec<u8> = v["exotic"]["syms"].as_array().map(|a| a.iter().map(|x| x.as_u64().unwrap_or(0) as u8).collect()).unwrap_or_default();
            match exotic::check(ty, &syms, sh) {
                Some((exp, obs)) => {
                    if verbose {
                        println!("reproduced property=C10 class=exotic-token-type\n token type={} shape={} length={}\n expected={}\n observed={}", exotic::TYPE_NAMES[ty as usize % 8], sh, syms.len(), exp, obs);
                    }
                    1
                }
                None => {
                    if verbose {
                        println!("not reproduced");
                    }
                    0
                }
            }
        }
        "srcsim" if v.get("graphemes").is_some() => {
            let text = v["graphemes"]["text"].as_str().unwrap_or("").to_string();
            let shape = v["graphemes"]["shape"].as_u64().unwrap_or(0) as u8;
            match srcsim::graphemes_check(&text, shape) {
                Some((exp, obs)) => {
                    if verbose {
                        println!("reproduced property=C10 class=graphemes\n text={:?} shape={}\n expected={}\n observed={}", text, shape, exp, obs);
                    }
                    1
                }
                None => {
                    if verbose {
                        println!("not reproduced");
                    }
                    0
                }
            }
        }
        "srcsim" => {
            let rp: srcsim::Replay = serde_json::from_value(v).unwrap_or_else(|e| harness_error(&format!("bad srcsim replay: {}", e)));
            match srcsim::replay(&rp) {
                Some((class, exp, obs)) => {
                    if verbose {
                        println!("reproduced property=C10 class={}\n grammar={}\n input={:?}\n expected={}\n observed={}", class, gram::sexpr(&rp.grammar), gram::show_input(&rp.syms), exp.brief(), obs.brief());
                    }
                    1
                }
                None => {
                    if verbose {
                        println!("not reproduced");
                    }
                    0
                }
            }
        }
        "lifesim" => {
            let spec: lifesim::LifeCase = serde_json::from_value(v["spec"].clone()).unwrap_or_else(|e| harness_error(&format!("bad lifesim replay: {}", e)));
            match lifesim::replay(&spec) {
                Some((class, detail)) => {
                    if verbose {
                        println!("reproduced property=C12 class={}\n {}", class, detail);
                    }
                    1
                }
                None => {
                    if verbose {
                        println!("not reproduced");
                    }
                    0
                }
            }
        }
        "soaksim" => {
            let z = v["soak"]["z"].as_u64().unwrap_or(0) as usize;
            let gap = v["soak"]["gap"].as_u64().unwrap_or(0) as u32;
            let (i, j) = (v["soak"]["first"].as_u64().unwrap_or(0) as usize, v["soak"]["second"].as_u64().unwrap_or(0) as usize);
            match soak::run(z, &[gap], Some((gap, i, j))).2 {
                Some(m) => {
                    if verbose {
                        println!("reproduced property=C13 class=soak-mismatch\n zoo::{} gap={} first={} second={} mode={:?}\n expected={}\n observed={}", zoo::ZOO_NAMES[z % zoo::ZOO_NAMES.len()], gap, i, j, m.mode, m.expected.brief(), m.observed.brief());
                    }
                    1
                }
                None => {
                    if verbose {
                        println!("not reproduced");
                    }
                    0
                }
            }
        }
        "recsim" if v.get("define_twice").is_some() => {
            let k = &v["define_twice"];
            match rectypes::define_twice_check(k["kind"].as_u64().unwrap_or(0) as u8, k["via_clone"].as_bool().unwrap_or(false), k["use_between"].as_bool().unwrap_or(false)) {
                Some((class, exp, obs)) => {
                    if verbose {
                        println!("reproduced property=C12 class={}\n first definition: {}\n expected={}\n observed={}", class, k["kind_name"], exp, obs);
                    }
                    1
                }
                None => {
                    if verbose {
                        println!("not reproduced");
                    }
                    0
                }
            }
        }
        "recsim" if v.get("rectypes").is_some() => {
            let ty = v["rectypes"]["ty"].as_u64().unwrap_or(0) as u8;
            let input: Vec<u8> = v["rectypes"]["input"].as_str().unwrap_or("").bytes().collect();
            let life: recsim::Life = serde_json::from_value(v["rectypes"]["life"].clone()).unwrap_or(recsim::Life::Value);
            match rectypes::check(ty, &input, &life) {
                Ok(Some((class, exp, obs))) => {
                    if verbose {
                        println!("reproduced property=C12 class={}\n output type={} input={:?} lifecycle={:?}\n unrolled={}\n recursive={}", class, rectypes::TYPE_NAMES[ty as usize % 8], String::from_utf8_lossy(&input), life, exp, obs);
                    }
                    1
                }
                _ => {
                    if verbose {
                        println!("not reproduced");
                    }
                    0
                }
            }
        }
        "recsim" if v.get("tree").is_some() => {
            let c: recsim::tree::TreeCase = serde_json::from_value(v["tree"].clone()).unwrap_or_else(|e| harness_error(&format!("bad recsim tree replay: {}", e)));
            match recsim::tree::run_case(&c) {
                (_, Some(t), _) => {
                    if verbose {
                        println!("reproduced property=C12 class={}\n token tree case={:?}\n unrolled/expected={}\n recursive={}", t.class, c, t.expected, t.observed);
                    }
                    1
                }
                _ => {
                    if verbose {
                        println!("not reproduced");
                    }
                    0
                }
            }
        }
        "recsim" => {
            let rp: recsim::Replay = serde_json::from_value(v).unwrap_or_else(|e| harness_error(&format!("bad recsim replay: {}", e)));
            match recsim::replay(&rp) {
                Some((class, exp, obs)) => {
                    if verbose {
                        println!("reproduced property=C12 class={}\n grammar={}\n inputs={:?}\n lifecycle={:?}\n unrolled={}\n recursive={}", class, rp.grammar_sexpr, rp.inputs_shown, rp.spec.life, exp.brief(), obs.brief());
                    }
                    1
                }
                None => {
                    if verbose {
                        println!("not reproduced");
                    }
                    0
                }
            }
        }
        "histsim" => {
            let rp: histsim::Replay = serde_json::from_value(v).unwrap_or_else(|e| harness_error(&format!("bad histsim replay: {}", e)));
            match histsim::replay(&rp) {
                Some((class, op, exp, obs)) => {
                    if verbose {
                        println!("reproduced property=C13 class={}\n {}\n failing op #{:?}\n expected={}\n observed={}", class, histsim::describe(&rp), op, exp.brief(), obs.brief());
                    }
                    1
                }
                None => {
                    if verbose {
                        println!("not reproduced");
                    }
                    0
                }
            }
        }
        "thrsim" => {
            let rp: thrsim::Replay = serde_json::from_value(v).unwrap_or_else(|e| harness_error(&format!("bad thrsim replay: {}", e)));
            match thrsim::replay(&rp) {
                Some((class, failing, exp, obs, _)) => {
                    if verbose {
                        println!("reproduced property=C13 class={}\n subject={}\n pool={:?}\n clients={:?}\n schedule={:?}\n failing (client, op)={:?}\n expected={}\n observed={}", class, rp.subject_shown, rp.pool_shown, rp.spec.clients, rp.schedules, failing, exp.brief(), obs.brief());
                    }
                    1
                }
                None => {
                    if verbose {
                        println!("not reproduced");
                    }
                    0
                }
            }
        }
        _ => harness_error("replay: unknown engine"),
    }
}

fn minimise_file(src: &Path, dst: &Path) {
    let v: Value = serde_json::from_slice(&std::fs::read(src).unwrap()).unwrap();
    if v["regenerate"].as_bool() == Some(true) {
        if let Some(seq) = v["sequence"].as_array() {
            // shrink the sequence of preceding cases: drop every one that is not needed
            let e = engine_by_name(v["engine"].as_str().unwrap_or(""));
            let tier = v["tier"].as_str().unwrap_or("quick").to_string();
            let seed = v["seed"].as_u64().unwrap();
            let mut seq: Vec<u64> = seq.iter().filter_map(|x| x.as_u64()).collect();
            let mut i = 0;
            while i + 1 < seq.len() {
                let mut cand = seq.clone();
                cand.remove(i);
                if !pool::run_sequence_isolated(&*e, seed, &cand, &tier).is_empty() {
                    seq = cand;
                } else {
                    i += 1;
                }
            }
            let mut d = v.clone();
            d["sequence"] = json!(seq);
            std::fs::write(dst, serde_json::to_vec_pretty(&d).unwrap()).unwrap();
            return;
        }
        std::fs::copy(src, dst).unwrap();
        return;
    }
    match v["engine"].as_str().unwrap_or("") {
        "srcsim" if v.get("exotic").is_some() => {
            // shorten the token sequence while it still fails
            let ty = v["exotic"]["ty"].as_u64().unwrap_or(0) as u8;
            let sh = v["exotic"]["shape"].as_u64().unwrap_or(0) as u8;
            let mut syms: Vec<u8> = v["exotic"]["syms"].as_array().map(|a| a.iter().map(|x| x.as_u64().unwrap_or(0) as u8).collect()).unwrap_or_default();
            let mut step = syms.len() / 2;
            while step >= 1 {
                let mut cut = false;
                if syms.len() >= step {
                    let cand: Vec<u8> = syms[..syms.len() - step].to_vec();
                    if exotic::check(ty, &cand, sh).is_some() {
                        syms = cand;
                        cut = true;
                    }
                }
                if !cut {
                    step /= 2;
                }
            }
            let mut d = v.clone();
            d["exotic"]["syms"] = json!(syms);
            if let Some((e, o)) = exotic::check(ty, &syms, sh) {
                d["expected"] = json!(e);
                d["observed"] = json!(o);
            }
            std::fs::write(dst, serde_json::to_vec_pretty(&d).unwrap()).unwrap();
        }
        "srcsim" if v.get("graphemes").is_some() => {
            // shrink the text cluster by cluster
            let shape = v["graphemes"]["shape"].as_u64().unwrap_or(0) as u8;
            let mut text = v["graphemes"]["text"].as_str().unwrap_or("").to_string();
            let mut progress = true;
            while progress {
                progress = false;
                let cl = srcsim::graphemes_reference(&text);
                for (_, a, b) in cl {
                    let cand = format!("{}{}", &text[..a], &text[b..]);
                    if srcsim::graphemes_check(&cand, shape).is_some() {
                        text = cand;
                        progress = true;
                        break;
                    }
                }
            }
            let mut d = v.clone();
            d["graphemes"]["text"] = json!(text);
            if let Some((e, o)) = srcsim::graphemes_check(&text, shape) {
                d["expected"] = json!(e);
                d["observed"] = json!(o);
            }
            std::fs::write(dst, serde_json::to_vec_pretty(&d).unwrap()).unwrap();
        }
        "srcsim" => {
            let rp: srcsim::Replay = serde_json::from_value(v).unwrap();
            let m = srcsim::minimise(&rp);
            std::fs::write(dst, serde_json::to_vec_pretty(&m).unwrap()).unwrap();
        }
        "recsim" if v.get("define_twice").is_some() => {
            // three small parameters: try the plain variants
            let k = v["define_twice"].clone();
            let kind = k["kind"].as_u64().unwrap_or(0) as u8;
            let mut d = v.clone();
            for (vc, ub) in [(false, false), (k["via_clone"].as_bool().unwrap_or(false), false), (false, k["use_between"].as_bool().unwrap_or(false))] {
                if let Some((class, e, o)) = rectypes::define_twice_check(kind, vc, ub) {
                    d["define_twice"]["via_clone"] = json!(vc);
                    d["define_twice"]["use_between"] = json!(ub);
                    d["class"] = json!(class);
                    d["expected"] = json!(e);
                    d["observed"] = json!(o);
                    break;
                }
            }
            std::fs::write(dst, serde_json::to_vec_pretty(&d).unwrap()).unwrap();
        }
        "recsim" if v.get("rectypes").is_some() => {
            // drop bytes of the input while a recursive form still differs from the unrolling; plain lifecycle
            let ty = v["rectypes"]["ty"].as_u64().unwrap_or(0) as u8;
            let mut input: Vec<u8> = v["rectypes"]["input"].as_str().unwrap_or("").bytes().collect();
            let mut life: recsim::Life = serde_json::from_value(v["rectypes"]["life"].clone()).unwrap_or(recsim::Life::Value);
            let fails = |i: &[u8], l: &recsim::Life| matches!(rectypes::check(ty, i, l), Ok(Some(_)));
            if fails(&input, &recsim::Life::Value) {
                life = recsim::Life::Value;
            }
            let mut progress = true;
            while progress {
                progress = false;
                for k in 0..input.len() {
                    let mut cand = input.clone();
                    cand.remove(k);
                    if fails(&cand, &life) {
                        input = cand;
                        progress = true;
                        break;
                    }
                }
            }
            let mut d = v.clone();
            d["rectypes"]["input"] = json!(String::from_utf8_lossy(&input));
            d["rectypes"]["life"] = serde_json::to_value(&life).unwrap();
            if let Ok(Some((class, e, o))) = rectypes::check(ty, &input, &life) {
                d["class"] = json!(class);
                d["expected"] = json!(e);
                d["observed"] = json!(o);
            }
            std::fs::write(dst, serde_json::to_vec_pretty(&d).unwrap()).unwrap();
        }
        "recsim" if v.get("tree").is_some() => {
            // shrink the tree case: smaller depth, no siblings, no memo, plain lifecycle
            let mut best: recsim::tree::TreeCase = serde_json::from_value(v["tree"].clone()).unwrap();
            let fails = |c: &recsim::tree::TreeCase| matches!(recsim::tree::run_case(c), (_, Some(_), _));
            let mut progress = true;
            while progress {
                progress = false;
                let mut cands: Vec<recsim::tree::TreeCase> = Vec::new();
                for d in [best.depth / 2, best.depth.saturating_sub(1)] {
                    if d < best.depth {
                        let mut c = best.clone();
                        c.depth = d;
                        c.unroll = d <= 1500;
                        cands.push(c);
                    }
                }
                let mut c = best.clone();
                c.before = 0;
                c.after = 0;
                cands.push(c);
                let mut c = best.clone();
                c.memo = false;
                cands.push(c);
                let mut c = best.clone();
                c.vary = false;
                cands.push(c);
                let mut c = best.clone();
                c.life = recsim::Life::Value;
                cands.push(c);
                let mut c = best.clone();
                c.bad_leaf = false;
                cands.push(c);
                for c in cands {
                    if c != best && fails(&c) {
                        best = c;
                        progress = true;
                        break;
                    }
                }
            }
            let mut d = v.clone();
            d["tree"] = serde_json::to_value(&best).unwrap();
            if let (_, Some(t), _) = recsim::tree::run_case(&best) {
                d["class"] = json!(t.class);
                d["expected"] = json!(t.expected);
                d["observed"] = json!(t.observed);
            }
            std::fs::write(dst, serde_json::to_vec_pretty(&d).unwrap()).unwrap();
        }
        "recsim" => {
            let rp: recsim::Replay = serde_json::from_value(v).unwrap();
            let m = recsim::minimise(&rp);
            std::fs::write(dst, serde_json::to_vec_pretty(&m).unwrap()).unwrap();
        }
        "histsim" => {
            let rp: histsim::Replay = serde_json::from_value(v).unwrap();
            let m = histsim::minimise(&rp);
            std::fs::write(dst, serde_json::to_vec_pretty(&m).unwrap()).unwrap();
        }
        "thrsim" => {
            let rp: thrsim::Replay = serde_json::from_value(v).unwrap();
            let m = thrsim::minimise(&rp);
            std::fs::write(dst, serde_json::to_vec_pretty(&m).unwrap()).unwrap();
        }
        "lifesim" => {
            // candidates may crash the process: each one runs in a fresh subprocess
            let exe = std::env::current_exe().unwrap();
            let class = v["class"].as_str().unwrap_or("").to_string();
            let mut best: lifesim::LifeCase = serde_json::from_value(v["spec"].clone()).unwrap();
            let mut doc = v.clone();
            let tmp = dst.with_extension("cand.json");
            let mut budget = 120;
            let still_fails = |c: &lifesim::LifeCase| -> bool {
                let mut d = doc_for(&v, c);
                d["class"] = json!(class);
                std::fs::write(&tmp, serde_json::to_vec(&d).unwrap()).unwrap();
                let mut cmd = Command::new(&exe);
                cmd.arg("replay").arg(&tmp).stdin(Stdio::null()).stdout(Stdio::piped());
                let ch = cmd.spawn().unwrap();
                let out = ch.wait_with_output().unwrap();
                let txt = String::from_utf8_lossy(&out.stdout).to_string();
                if class == "crash" || class == "hang" {
                    out.status.code().is_none()
                } else {
                    out.status.code() == Some(1) && txt.contains(&format!("class={}", class))
                }
            };
            let mut progress = true;
            while progress && budget > 0 {
                progress = false;
                for cand in lifesim::shrink_candidates(&best) {
                    if budget == 0 {
                        break;
                    }
                    budget -= 1;
                    if still_fails(&cand) {
                        best = cand;
                        progress = true;
                        break;
                    }
                }
            }
            doc["spec"] = serde_json::to_value(&best).unwrap();
            std::fs::remove_file(&tmp).ok();
            std::fs::write(dst, serde_json::to_vec_pretty(&doc).unwrap()).unwrap();
        }
        _ => {
            std::fs::copy(src, dst).unwrap();
        }
    }
}

fn doc_for(orig: &Value, c: &lifesim::LifeCase) -> Value {
    let mut d = orig.clone();
    d["spec"] = serde_json::to_value(c).unwrap();
    d
}
