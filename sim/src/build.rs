//! One grammar AST → a real chumsky parser for any input kind.
//!
//! Three instantiations of the same body (macro): `build` (Boxed, ValueInput), `build_input_only`
//! (Boxed, plain Input: IterInput), `build_sync` (leaked `&dyn Parser + Send + Sync`, for thrsim).
//! Every user closure calls `hook::cb()`; the inspector calls `hook::tick()` on every consumed token.

use crate::gram::{RepMode, Strat, G};
use crate::hook;
use crate::prng::mix64;
use crate::tok::{SpanX, Tok};
use crate::val::Val;
use chumsky::input::{BorrowInput, Checkpoint, Cursor, ExactSizeInput, InputRef, MapExtra, SliceInput, StrInput, ValueInput};
use chumsky::inspector::Inspector;
use chumsky::prelude::*;
use chumsky::recursive::{Direct, Recursive};
use chumsky::{extra, Boxed};

/// User state: a snapshot-checkpoint inspector (what C18 calls consistent). Its digest is folded
/// into outputs by `StateProbe`, so "what user state saw" rides on the equality oracles.
#[derive(Clone, Debug, Default, PartialEq, Eq)]
pub struct Insp {
    pub n: u64,
    pub h: u64,
}

impl<'src, I: Input<'src>> Inspector<'src, I> for Insp
where
    I::Token: Tok,
{
    type Checkpoint = (u64, u64);
    #[inline]
    fn on_token(&mut self, token: &I::Token) {
        hook::tick();
        self.n += 1;
        self.h = crate::prng::fold(self.h, token.to_sym() as u64);
    }
    #[inline]
    fn on_save<'parse>(&self, _: &Cursor<'src, 'parse, I>) -> Self::Checkpoint {
        hook::inspector_event();
        (self.n, self.h)
    }
    #[inline]
    fn on_rewind<'parse>(&mut self, m: &Checkpoint<'src, 'parse, I, Self::Checkpoint>) {
        hook::inspector_event();
        let (n, h) = *m.inspector();
        self.n = n;
        self.h = h;
    }
}

pub type Ex<'a, I> = extra::Full<Rich<'a, <I as Input<'a>>::Token, <I as Input<'a>>::Span>, Insp, ()>;
pub type BP<'a, I> = Boxed<'a, 'a, I, Val, Ex<'a, I>>;
pub type SP<'a, I> = &'a (dyn Parser<'a, I, Val, Ex<'a, I>> + Send + Sync + 'a);

pub const LABELS: [&str; 4] = ["L0", "L1", "L2", "L3"];

#[inline]
pub fn pred(k: u8, v: &Val) -> bool {
    mix64(v.shape() ^ (k as u64).wrapping_mul(0x9E37)) % 4 != 0
}

/// Owns leaked sync parsers so a long thrsim run does not accumulate memory.
#[derive(Default)]
pub struct Arena {
    items: std::cell::RefCell<Vec<(*mut (), unsafe fn(*mut ()))>>,
}

impl Arena {
    /// Keep any value alive until the arena is cleared and hand out a reference to it.
    pub fn put_any<'a, T: 'a>(&self, t: T) -> &'a T {
        unsafe fn dropper<T>(p: *mut ()) {
            drop(Box::from_raw(p as *mut T));
        }
        let raw: *mut T = Box::into_raw(Box::new(t));
        self.items.borrow_mut().push((raw as *mut (), dropper::<T>));
        // SAFETY: see `put`; for the per-case arena of the boxed builders the engine clears it only
        // between cases, when no parser of the previous case is alive any more.
        unsafe { &*raw }
    }
    pub fn clear(&self) {
        for (p, d) in self.items.borrow_mut().drain(..).rev() {
            unsafe { d(p) }
        }
    }
    pub fn put<'a, I, P>(&self, p: P) -> SP<'a, I>
    where
        I: Input<'a>,
        I::Token: Tok,
        I::Span: SpanX,
        P: Parser<'a, I, Val, Ex<'a, I>> + Send + Sync + 'a,
    {
        unsafe fn dropper<T>(p: *mut ()) {
            drop(Box::from_raw(p as *mut T));
        }
        let raw: *mut P = Box::into_raw(Box::new(p));
        self.items.borrow_mut().push((raw as *mut (), dropper::<P>));
        // SAFETY: the arena is dropped by the engine only after every handle derived from it is gone.
        let r: &'a P = unsafe { &*raw };
        r
    }
}

impl Drop for Arena {
    fn drop(&mut self) {
        // children were allocated before parents; free parents first
        for (p, d) in self.items.borrow_mut().drain(..).rev() {
            unsafe { d(p) }
        }
    }
}

pub struct Cx<'a, H> {
    pub rec: Vec<H>,
    pub arena: &'a Arena,
}

thread_local! {
    static CLONE_NODES: std::cell::Cell<bool> = const { std::cell::Cell::new(false) };
}

/// While on, every combinator node is built, cloned through its own (hand-written) `Clone` impl,
/// the original dropped, and only the clone is kept: the resulting parser consists of clones only.
/// C13 requires it to behave exactly like the normally built one.
pub fn set_clone_nodes(on: bool) {
    CLONE_NODES.with(|c| c.set(on));
}
pub fn clone_nodes() -> bool {
    CLONE_NODES.with(|c| c.get())
}

thread_local! {
    static CFG_BY_REF: std::cell::Cell<bool> = const { std::cell::Cell::new(false) };
}
/// While on, configurable parsers are used through a reference (`(&p).configure(..)`, the blanket
/// `ConfigParser for &T`) instead of by value. C13 requires both to behave alike.
pub fn set_cfg_by_ref(on: bool) {
    CFG_BY_REF.with(|c| c.set(on));
}
pub fn cfg_by_ref() -> bool {
    CFG_BY_REF.with(|c| c.get())
}

macro_rules! erase_boxed {
    ($cx:expr, $p:expr) => {{
        let p = $p;
        if clone_nodes() {
            let q = p.clone();
            drop(p);
            Parser::boxed(q)
        } else {
            Parser::boxed(p)
        }
    }};
}
macro_rules! erase_sync {
    ($cx:expr, $p:expr) => {
        $cx.arena.put($p)
    };
}

/// How a `Rec` node is realised (thread-local, set by the engine around a build).
#[derive(Clone, Copy, Debug, PartialEq, Eq)]
pub enum RecMode {
    /// `recursive(|me| ..)`
    Direct,
    /// `Recursive::declare()` + `define(..)`
    Indirect,
    /// no `Recursive` at all: the self-reference expanded k times with plain combinators;
    /// level 0 is a parser that always fails with the message `UNROLL_FLOOR`
    Unroll(usize),
}
pub const UNROLL_FLOOR: &str = "U0 reached: unrolling too shallow (harness)";

thread_local! {
    static REC_MODE: std::cell::Cell<RecMode> = const { std::cell::Cell::new(RecMode::Direct) };
}
pub fn set_rec_mode(m: RecMode) {
    REC_MODE.with(|c| c.set(m));
}
pub fn rec_mode() -> RecMode {
    REC_MODE.with(|c| c.get())
}

macro_rules! rec_boxed {
    ($build:ident, $cx:expr, $body:expr) => {{
        let body: &G = $body;
        match rec_mode() {
            RecMode::Direct => {
                let r = recursive(|me: Recursive<Direct<'a, 'a, I, Val, Ex<'a, I>>>| {
                    $cx.rec.push(Parser::boxed(me));
                    let b = $build(body, $cx);
                    $cx.rec.pop();
                    b
                });
                Parser::boxed(r)
            }
            RecMode::Indirect => {
                let mut r = Recursive::declare();
                $cx.rec.push(Parser::boxed(r.clone()));
                let b = $build(body, $cx);
                $cx.rec.pop();
                r.define(b);
                Parser::boxed(r)
            }
            RecMode::Unroll(k) => {
                let mut u: BP<'a, I> = Parser::boxed(empty().try_map(|(), span: I::Span| Err::<Val, _>(Rich::custom(span, UNROLL_FLOOR))));
                for _ in 0..k {
                    $cx.rec.push(u);
                    u = $build(body, $cx);
                    $cx.rec.pop();
                }
                u
            }
        }
    }};
}
macro_rules! rec_none {
    ($build:ident, $cx:expr, $body:expr) => {{
        let _ = $body;
        panic!("harness: Rec is not available in the sync builder")
    }};
}

macro_rules! value_arms_yes {
    ($erase:ident, $sub:ident, $cx:expr, $g:expr) => {
        match $g {
            G::Not(a) => {
                let a = $sub!(a);
                $erase!($cx, a.not().map(|()| Val::Unit))
            }
            G::Lazy(a) => {
                let a = $sub!(a);
                $erase!($cx, a.lazy())
            }
            G::CtxPair(flags) => {
                let flags = *flags;
                type ExC<'a, I> = extra::Full<Rich<'a, <I as Input<'a>>::Token, <I as Input<'a>>::Span>, Insp, <I as Input<'a>>::Token>;
                let first = any::<I, Ex<'a, I>>();
                if flags & 4 != 0 {
                    // iterable parser configured from the context
                    let base = just::<_, I, ExC<'a, I>>(I::Token::from_sym(0)).repeated();
                    // (only ConfigParser, not ConfigIterParser, is implemented for &T: always by value here)
                    let second = base.configure(|cfg, ctx: &I::Token| cfg.exactly((ctx.to_sym() % 3) as usize)).count();
                    $erase!($cx, first.then_with_ctx(second).map(|(t, n): (I::Token, usize)| {
                        hook::cb();
                        Val::Seq(vec![Val::Tok(t.to_sym()), Val::Num(n as u64)])
                    }))
                } else {
                    let base = just::<_, I, ExC<'a, I>>(I::Token::from_sym(0));
                    macro_rules! finish {
                        ($second:expr) => {{
                            let second = $second;
                            if flags & 2 != 0 {
                                $erase!($cx, first.ignore_with_ctx(second).map(|u: I::Token| {
                                    hook::cb();
                                    Val::Seq(vec![Val::Tok(u.to_sym())])
                                }))
                            } else {
                                $erase!($cx, first.then_with_ctx(second).map(|(t, u): (I::Token, I::Token)| {
                                    hook::cb();
                                    Val::Seq(vec![Val::Tok(t.to_sym()), Val::Tok(u.to_sym())])
                                }))
                            }
                        }};
                    }
                    if cfg_by_ref() {
                        let base = $cx.arena.put_any(base);
                        finish!(base.configure(|cfg, ctx: &I::Token| cfg.seq(ctx.clone())))
                    } else {
                        finish!(base.configure(|cfg, ctx: &I::Token| cfg.seq(ctx.clone())))
                    }
                }
            }
            G::Padded(a) => {
                let a = $sub!(a);
                $erase!($cx, a.padded())
            }
            G::ValApi(a) => {
                let a = *a;
                $erase!($cx, custom(move |inp: &mut InputRef<'a, '_, I, Ex<'a, I>>| {
                    hook::cb();
                    let before = inp.cursor();
                    let seen = inp.peek().map(|t: I::Token| t.to_sym());
                    if seen != Some(a) {
                        return Err(Rich::custom(inp.span_since(&before), "valapi-nomatch"));
                    }
                    inp.skip();
                    let mid = inp.cursor();
                    let second = match inp.peek().map(|t: I::Token| t.to_sym()) {
                        Some(s) if s == a => inp.next().map(|t: I::Token| t.to_sym()).unwrap_or(255),
                        Some(_) => 253,
                        None => 254,
                    };
                    let tail = inp.span_since(&mid).norm();
                    Ok(Val::Span(inp.span_since(&before).norm(), Box::new(Val::Seq(vec![Val::Tok(second), Val::OnlySpan(tail)]))))
                }))
            }
            G::Any => $erase!($cx, any().map(|t: I::Token| {
                hook::cb();
                Val::Tok(t.to_sym())
            })),
            G::OneOf(v) => {
                let set = <I::Token as Tok>::mk_set(v);
                $erase!($cx, one_of(set).map(|t: I::Token| Val::Tok(t.to_sym())))
            }
            G::NoneOf(v) => {
                let set = <I::Token as Tok>::mk_set(v);
                $erase!($cx, none_of(set).map(|t: I::Token| Val::Tok(t.to_sym())))
            }
            G::Select(v) => {
                let mut mask = 0u64;
                for s in v {
                    mask |= 1 << s;
                }
                $erase!($cx, chumsky::primitive::select(move |t: I::Token, _e: &mut MapExtra<'a, '_, I, Ex<'a, I>>| {
                    hook::cb();
                    let s = t.to_sym();
                    if s < 64 && mask >> s & 1 == 1 {
                        Some(Val::Tok(s))
                    } else {
                        None
                    }
                }))
            }
            _ => unreachable!(),
        }
    };
}
macro_rules! value_arms_no {
    ($erase:ident, $sub:ident, $cx:expr, $g:expr) => {{
        let _ = $g;
        panic!("harness: grammar needs ValueInput but the input kind only implements Input")
    }};
}
macro_rules! nested_yes {
    ($erase:ident, $cx:expr, $a:expr, $o:expr, $c:expr, $o2:expr, $c2:expr) => {{
        let nd = chumsky::recovery::nested_delimiters::<I, Val, Ex<'a, I>, _, 1>(
            I::Token::from_sym($o),
            I::Token::from_sym($c),
            [(I::Token::from_sym($o2), I::Token::from_sym($c2))],
            |span: I::Span| {
                hook::cb();
                Val::Span(span.norm(), Box::new(Val::Fallback(3)))
            },
        );
        $erase!($cx, $a.recover_with(via_parser(nd)))
    }};
}
macro_rules! nested_no {
    ($erase:ident, $cx:expr, $a:expr, $o:expr, $c:expr, $o2:expr, $c2:expr) => {{
        let _ = ($a, $o, $c, $o2, $c2);
        panic!("harness: nested_delimiters needs ValueInput")
    }};
}

// ---------------------------------------------------------------------------------------------
// Capability-specific nodes: to_slice (SliceInput), any_ref / select_ref (BorrowInput),
// span_from (ExactSizeInput). Each concrete input kind says which it supports.

pub trait SliceX {
    fn syms(&self) -> Vec<u8>;
}
impl SliceX for &[u8] {
    fn syms(&self) -> Vec<u8> {
        self.iter().map(|t| t.to_sym()).collect()
    }
}
impl SliceX for &[char] {
    fn syms(&self) -> Vec<u8> {
        self.iter().map(|t| t.to_sym()).collect()
    }
}
impl SliceX for &str {
    fn syms(&self) -> Vec<u8> {
        self.chars().map(|t| t.to_sym()).collect()
    }
}
impl SliceX for bytes::Bytes {
    fn syms(&self) -> Vec<u8> {
        self.iter().map(|t| t.to_sym()).collect()
    }
}
impl<S> SliceX for &[(u8, S)] {
    fn syms(&self) -> Vec<u8> {
        self.iter().map(|t| t.0.to_sym()).collect()
    }
}

pub fn mk_slice_from<'a, I>() -> BP<'a, I>
where
    I: ValueInput<'a> + SliceInput<'a>,
    I::Slice: SliceX,
    I::Token: Tok,
    I::Span: SpanX,
{
    custom(|inp: &mut InputRef<'a, '_, I, Ex<'a, I>>| {
        hook::cb();
        let c = inp.cursor();
        let rest: I::Slice = inp.slice_from(&c..);
        Ok(Val::Seq(rest.syms().into_iter().map(Val::Tok).collect()))
    })
    .boxed()
}

pub fn mk_slice<'a, I>(p: BP<'a, I>, via_extra: bool) -> BP<'a, I>
where
    I: ValueInput<'a> + SliceInput<'a>,
    I::Slice: SliceX,
    I::Token: Tok,
    I::Span: SpanX,
{
    if via_extra {
        // the same slice through MapExtra::slice()
        return p
            .map_with(|_v: Val, e: &mut MapExtra<'a, '_, I, Ex<'a, I>>| {
                hook::cb();
                let s: I::Slice = e.slice();
                Val::Seq(s.syms().into_iter().map(Val::Tok).collect())
            })
            .boxed();
    }
    p.to_slice()
        .map(|s: I::Slice| {
            hook::cb();
            Val::Seq(s.syms().into_iter().map(Val::Tok).collect())
        })
        .boxed()
}

pub fn mk_any_ref<'a, I>() -> BP<'a, I>
where
    I: ValueInput<'a> + BorrowInput<'a>,
    I::Token: Tok,
    I::Span: SpanX,
{
    chumsky::primitive::any_ref()
        .map(|t: &'a I::Token| {
            hook::cb();
            Val::Tok(t.to_sym())
        })
        .boxed()
}

/// the by-reference token API of InputRef from inside a custom parser
pub fn mk_ref_api<'a, I>(a: u8) -> BP<'a, I>
where
    I: ValueInput<'a> + BorrowInput<'a>,
    I::Token: Tok,
    I::Span: SpanX,
{
    custom(move |inp: &mut InputRef<'a, '_, I, Ex<'a, I>>| {
        hook::cb();
        let before = inp.cursor();
        let seen: Option<&'a I::Token> = inp.peek_ref();
        if seen.map(|t| t.to_sym()) != Some(a) {
            return Err(Rich::custom(inp.span_since(&before), "refapi-nomatch"));
        }
        let got: Option<&'a I::Token> = inp.next_ref();
        let after = inp.peek_ref().map(|t: &'a I::Token| t.to_sym()).unwrap_or(254);
        Ok(Val::Span(inp.span_since(&before).norm(), Box::new(Val::Seq(vec![Val::Tok(got.map(|t| t.to_sym()).unwrap_or(255)), Val::Tok(after)]))))
    })
    .boxed()
}

/// slices between cursors the parser took itself: slice(c0..c1) and slice_since(c0..)
pub fn mk_slice_api<'a, I>(a: u8) -> BP<'a, I>
where
    I: ValueInput<'a> + SliceInput<'a>,
    I::Slice: SliceX,
    I::Token: Tok,
    I::Span: SpanX,
{
    custom(move |inp: &mut InputRef<'a, '_, I, Ex<'a, I>>| {
        hook::cb();
        let c0 = inp.cursor();
        let mut cs = vec![inp.cursor()];
        for _ in 0..3 {
            let m = inp.save();
            match inp.next_maybe().map(|t| t.to_sym()) {
                Some(s) if s == a => cs.push(inp.cursor()),
                _ => {
                    inp.rewind(m);
                    break;
                }
            }
        }
        if cs.len() < 2 {
            return Err(Rich::custom(inp.span_since(&c0), "sliceapi-nomatch"));
        }
        let whole: I::Slice = inp.slice_since(&c0..);
        let last: I::Slice = inp.slice(&cs[cs.len() - 2]..&cs[cs.len() - 1]);
        let none: I::Slice = inp.slice(&cs[1]..&cs[1]);
        let f = |s: I::Slice| Val::Seq(s.syms().into_iter().map(Val::Tok).collect());
        Ok(Val::Span(inp.span_since(&c0).norm(), Box::new(Val::Seq(vec![f(whole), f(last), f(none)]))))
    })
    .boxed()
}

pub fn mk_select_ref<'a, I>(mask: u64) -> BP<'a, I>
where
    I: ValueInput<'a> + BorrowInput<'a>,
    I::Token: Tok,
    I::Span: SpanX,
{
    chumsky::primitive::select_ref(move |t: &'a I::Token, _e: &mut MapExtra<'a, '_, I, Ex<'a, I>>| {
        hook::cb();
        let s = t.to_sym();
        if s < 64 && mask >> s & 1 == 1 {
            Some(Val::Tok(s))
        } else {
            None
        }
    })
    .boxed()
}

pub fn mk_span_from<'a, I>() -> BP<'a, I>
where
    I: ValueInput<'a> + ExactSizeInput<'a>,
    I::Token: Tok,
    I::Span: SpanX,
{
    custom(|inp: &mut InputRef<'a, '_, I, Ex<'a, I>>| {
        hook::cb();
        let c = inp.cursor();
        Ok(Val::RestSpan(inp.span_from(&c..).norm()))
    })
    .boxed()
}

fn slice_val<S: SliceX>(s: S) -> Val {
    hook::cb();
    Val::Seq(s.syms().into_iter().map(Val::Tok).collect())
}

/// chumsky::text parsers over any StrInput kind (gram::G::Text, k < 9; k == 7 is `newline()` on
/// character inputs — it does not exist for byte inputs in this commit, `&str: OrderedSeq<u8>` is
/// missing — and `inline_whitespace().count()` there).
/// keyword literal for `text::ascii::keyword`: comparable with every slice type and usable as an
/// expected-pattern of `Rich`
#[derive(Clone, Debug)]
pub struct Kw(pub &'static str);
impl PartialEq<&[u8]> for Kw {
    fn eq(&self, o: &&[u8]) -> bool {
        self.0.as_bytes() == *o
    }
}
impl PartialEq<&str> for Kw {
    fn eq(&self, o: &&str) -> bool {
        self.0 == *o
    }
}
impl PartialEq<bytes::Bytes> for Kw {
    fn eq(&self, o: &bytes::Bytes) -> bool {
        self.0.as_bytes() == &o[..]
    }
}
impl<'a, T> From<Kw> for chumsky::error::RichPattern<'a, T> {
    fn from(k: Kw) -> Self {
        chumsky::error::RichPattern::Label(std::borrow::Cow::Borrowed(k.0))
    }
}
pub const KEYWORDS: [&str; 2] = ["ab", "_a7"];

pub fn mk_text<'a, I>(k: u8, newline: Option<BP<'a, I>>) -> BP<'a, I>
where
    I: StrInput<'a>,
    I::Slice: SliceX + PartialEq,
    Kw: PartialEq<I::Slice>,
    I::Token: Tok,
    I::Span: SpanX,
{
    use chumsky::text;
    match k {
        13 | 14 => text::ascii::keyword::<I, Kw, Ex<'a, I>>(Kw(KEYWORDS[(k - 13) as usize])).map(slice_val::<I::Slice>).boxed(),
        0 => text::ascii::ident().map(slice_val::<I::Slice>).boxed(),
        1 => text::unicode::ident().map(slice_val::<I::Slice>).boxed(),
        2 => text::int(10).map(slice_val::<I::Slice>).boxed(),
        3 => text::int(16).map(slice_val::<I::Slice>).boxed(),
        4 => text::digits(36).to_slice().map(slice_val::<I::Slice>).boxed(),
        5 => text::whitespace().at_least(1).count().map(|n: usize| Val::Num(n as u64)).boxed(),
        6 => text::inline_whitespace().at_least(1).to_slice().map(slice_val::<I::Slice>).boxed(),
        7 => match newline {
            Some(p) => p,
            None => text::inline_whitespace().at_least(1).count().map(|n: usize| Val::Num(500 + n as u64)).boxed(),
        },
        _ => text::whitespace().count().map(|n: usize| Val::Num(n as u64)).boxed(),
    }
}

pub fn mk_newline<'a, I>() -> BP<'a, I>
where
    I: StrInput<'a>,
    I::Token: Tok,
    I::Span: SpanX,
    &'a str: chumsky::container::OrderedSeq<'a, I::Token>,
{
    chumsky::text::newline().to_span().map(|s: I::Span| Val::OnlySpan(s.norm())).boxed()
}

/// the last two are sensitive to what precedes the cursor (an ASCII word boundary, a multi-line anchor)
pub const REGEXES: [&str; 4] = ["[a-c]+[07]*", "[^ \\n0]+", "(?-u:\\b)[a-d]+", "(?m)^[a-h]+"];

/// regex(..) needs a StrInput whose slices are borrowed (`&str`, `&[u8]`): InputRef::full_slice + skip_bytes.
pub fn mk_regex<'a, I, S>(k: u8) -> BP<'a, I>
where
    I: StrInput<'a, Slice = &'a S>,
    S: ?Sized + AsRef<[u8]> + 'a,
    &'a S: SliceX,
    I::Token: Tok,
    I::Span: SpanX,
{
    chumsky::regex::regex::<I, Ex<'a, I>>(REGEXES[(k as usize).saturating_sub(9) % REGEXES.len()])
        .map_with(|s: &'a S, e: &mut MapExtra<'a, '_, I, Ex<'a, I>>| {
            hook::cb();
            Val::Span(e.span().norm(), Box::new(Val::Seq(s.syms().into_iter().map(Val::Tok).collect())))
        })
        .boxed()
}

pub trait Caps<'a>: ValueInput<'a> + Sized
where
    <Self as Input<'a>>::Token: Tok,
    <Self as Input<'a>>::Span: SpanX,
{
    fn slice_of(_p: BP<'a, Self>, _via_extra: bool) -> Option<BP<'a, Self>> {
        None
    }
    fn slice_from() -> Option<BP<'a, Self>> {
        None
    }
    fn any_ref() -> Option<BP<'a, Self>> {
        None
    }
    fn select_ref(_mask: u64) -> Option<BP<'a, Self>> {
        None
    }
    fn span_from_probe() -> Option<BP<'a, Self>> {
        None
    }
    fn ref_api(_a: u8) -> Option<BP<'a, Self>> {
        None
    }
    /// the by-value twin of `ref_api` (same output shape; every ValueInput kind)
    fn ref_api_by_value(a: u8) -> BP<'a, Self> {
        custom(move |inp: &mut InputRef<'a, '_, Self, Ex<'a, Self>>| {
            hook::cb();
            let before = inp.cursor();
            let seen: Option<Self::Token> = inp.peek();
            if seen.map(|t| t.to_sym()) != Some(a) {
                return Err(Rich::custom(inp.span_since(&before), "refapi-nomatch"));
            }
            let got: Option<Self::Token> = inp.next();
            let after = inp.peek().map(|t: Self::Token| t.to_sym()).unwrap_or(254);
            Ok(Val::Span(inp.span_since(&before).norm(), Box::new(Val::Seq(vec![Val::Tok(got.map(|t| t.to_sym()).unwrap_or(255)), Val::Tok(after)]))))
        })
        .boxed()
    }
    fn slice_api(_a: u8) -> Option<BP<'a, Self>> {
        None
    }
    fn text(_k: u8) -> Option<BP<'a, Self>> {
        None
    }
    fn nested(_inner: &G, _n: usize) -> Option<BP<'a, Self>> {
        None
    }
}

pub const NEST_CTX: u32 = 7;
/// `inner.nested_in(region)`: the next `n` tokens of the outer input are collected and `mk` builds a
/// NEW input of the same kind from them (in this commit `nested_in` only type-checks when inner and
/// outer input are the same type): a fresh slice, a fresh stream over a fresh iterator, a fresh reader.
/// `inner` must match it completely.
pub fn mk_nested<'a, I>(inner: &G, n: usize, mk: fn(Vec<I::Token>) -> I) -> BP<'a, I>
where
    I: Caps<'a>,
    I::Token: Tok,
    I::Span: SpanX,
{
    let a: BP<'a, I> = build::<I>(inner);
    let region = any::<I, Ex<'a, I>>().repeated().exactly(n).collect::<Vec<I::Token>>().map(move |v: Vec<I::Token>| -> I {
        hook::cb();
        mk(v)
    });
    a.nested_in(region).boxed()
}

/// keeps the tokens of a nested region alive until the case ends
fn keep_slice<'x>(v: Vec<u8>) -> &'x [u8] {
    let arena: &'static Arena = NO_ARENA.with(|a| *a);
    let kept: &'x Vec<u8> = arena.put_any(v);
    &kept[..]
}
fn fresh_iter(v: Vec<u8>) -> SimIter<u8> {
    SimIter::new(std::rc::Rc::new(v), crate::sources::Hint::Unknown).0
}
fn fresh_reader(v: Vec<u8>) -> SimReader {
    let mut pol = crate::sources::ReaderPolicy::full();
    pol.chunk = crate::sources::Chunk::Fixed(2);
    SimReader::new(std::rc::Rc::new(v), pol, crate::prng::Rng::new(7)).0
}

macro_rules! cap_fns {
    (slice) => {
        fn slice_of(p: BP<'a, Self>, via_extra: bool) -> Option<BP<'a, Self>> {
            Some(mk_slice::<Self>(p, via_extra))
        }
        fn slice_from() -> Option<BP<'a, Self>> {
            Some(mk_slice_from::<Self>())
        }
        fn slice_api(a: u8) -> Option<BP<'a, Self>> {
            Some(mk_slice_api::<Self>(a))
        }
    };
    (borrow) => {
        fn any_ref() -> Option<BP<'a, Self>> {
            Some(mk_any_ref::<Self>())
        }
        fn select_ref(mask: u64) -> Option<BP<'a, Self>> {
            Some(mk_select_ref::<Self>(mask))
        }
        fn ref_api(a: u8) -> Option<BP<'a, Self>> {
            Some(mk_ref_api::<Self>(a))
        }
    };
    (exact) => {
        fn span_from_probe() -> Option<BP<'a, Self>> {
            Some(mk_span_from::<Self>())
        }
    };
    // byte StrInput with borrowed slices
    (text_u8) => {
        fn text(k: u8) -> Option<BP<'a, Self>> {
            Some(if (9..=12).contains(&k) { mk_regex::<Self, [u8]>(k) } else { mk_text::<Self>(k, None) })
        }
    };
    // byte StrInput whose slice type is owned (bytes::Bytes): no regex
    (text_owned) => {
        fn text(k: u8) -> Option<BP<'a, Self>> {
            if (9..=12).contains(&k) {
                None
            } else {
                Some(mk_text::<Self>(k, None))
            }
        }
    };
    // nested_in: how a fresh input of this very kind is made from the collected tokens of a region
    (nest_slice) => {
        fn nested(inner: &G, n: usize) -> Option<BP<'a, Self>> {
            Some(mk_nested::<Self>(inner, n, |v| keep_slice(v)))
        }
    };
    (nest_bytes) => {
        fn nested(inner: &G, n: usize) -> Option<BP<'a, Self>> {
            Some(mk_nested::<Self>(inner, n, |v| bytes::Bytes::from(v)))
        }
    };
    (nest_stream) => {
        fn nested(inner: &G, n: usize) -> Option<BP<'a, Self>> {
            Some(mk_nested::<Self>(inner, n, |v| Stream::from_iter(fresh_iter(v))))
        }
    };
    (nest_stream_boxed) => {
        fn nested(inner: &G, n: usize) -> Option<BP<'a, Self>> {
            Some(mk_nested::<Self>(inner, n, |v| Stream::from_iter(fresh_iter(v)).boxed()))
        }
    };
    (nest_stream_exact) => {
        fn nested(inner: &G, n: usize) -> Option<BP<'a, Self>> {
            // (an ExactSizeIterator must report an exact size_hint)
            Some(mk_nested::<Self>(inner, n, |v| Stream::from_iter(SimIter::new(std::rc::Rc::new(v), crate::sources::Hint::Exact).0).exact_size_boxed()))
        }
    };
    (nest_io) => {
        fn nested(inner: &G, n: usize) -> Option<BP<'a, Self>> {
            Some(mk_nested::<Self>(inner, n, |v| IoInput::new(fresh_reader(v))))
        }
    };
    (nest_ctx_slice) => {
        fn nested(inner: &G, n: usize) -> Option<BP<'a, Self>> {
            Some(mk_nested::<Self>(inner, n, |v| keep_slice(v).with_context::<CSp>(NEST_CTX)))
        }
    };
    (nest_ctx_stream) => {
        fn nested(inner: &G, n: usize) -> Option<BP<'a, Self>> {
            Some(mk_nested::<Self>(inner, n, |v| Stream::from_iter(fresh_iter(v)).with_context::<CSp>(NEST_CTX)))
        }
    };
    (nest_ctx_io) => {
        fn nested(inner: &G, n: usize) -> Option<BP<'a, Self>> {
            Some(mk_nested::<Self>(inner, n, |v| IoInput::new(fresh_reader(v)).with_context::<CSp>(NEST_CTX)))
        }
    };
    (text_str) => {
        fn text(k: u8) -> Option<BP<'a, Self>> {
            Some(if (9..=12).contains(&k) { mk_regex::<Self, str>(k) } else { mk_text::<Self>(k, Some(mk_newline::<Self>())) })
        }
    };
}
macro_rules! caps {
    ([$($g:tt)*] $t:ty $(where [$($w:tt)*])? ; $($cap:ident),*) => {
        impl<'a, $($g)*> Caps<'a> for $t $(where $($w)*)? {
            $( cap_fns!($cap); )*
        }
    };
}

type SSp = chumsky::span::SimpleSpan<usize>;
type CSp = chumsky::span::SimpleSpan<usize, u32>;
use chumsky::input::{BoxedExactSizeStream, BoxedStream, IoInput, MappedInput, MappedSpan, Stream, WithContext};
use crate::sources::{SimIter, SimReader};

caps!([] &'a [u8]; slice, borrow, exact, text_u8, nest_slice);
caps!([] &'a [char]; slice, borrow, exact);
caps!([const N: usize] &'a [u8; N]; slice, borrow, exact, text_u8);
caps!([] &'a str; slice, exact, text_str);
caps!([] bytes::Bytes; slice, exact, text_owned, nest_bytes);
caps!([] Stream<SimIter<u8>>; nest_stream);
caps!([] Stream<SimIter<char>>;);
caps!([] BoxedStream<'a, u8>; nest_stream_boxed);
caps!([] BoxedExactSizeStream<'a, u8>; exact, nest_stream_exact);
caps!([] IoInput<SimReader>; nest_io);
caps!([] WithContext<CSp, &'a [u8]>; slice, borrow, exact, text_u8, nest_ctx_slice);
caps!([] WithContext<CSp, &'a str>; slice, exact, text_str);
caps!([] WithContext<CSp, Stream<SimIter<u8>>>; nest_ctx_stream);
caps!([] WithContext<CSp, IoInput<SimReader>>; nest_ctx_io);
caps!([F: Fn(SSp) -> CSp + 'a] MappedSpan<CSp, &'a [u8], F>; slice, borrow, exact, text_u8);
caps!([F: Fn(SSp) -> CSp + 'a] MappedSpan<CSp, &'a str, F>; slice, exact, text_str);
caps!([F: Fn(SSp) -> CSp + 'a] MappedSpan<CSp, Stream<SimIter<u8>>, F>;);
caps!([F: Fn(SSp) -> CSp + 'a] MappedSpan<CSp, IoInput<SimReader>, F>;);
// wrappers stacked on wrappers
caps!([F: Fn(SSp) -> CSp + 'a] WithContext<CSp, MappedSpan<CSp, Stream<SimIter<u8>>, F>>;);
caps!([F: Fn(CSp) -> CSp + 'a] MappedSpan<CSp, WithContext<CSp, &'a [u8]>, F>; slice, borrow, exact, text_u8);
caps!([F: Fn(CSp) -> CSp + 'a] MappedSpan<CSp, WithContext<CSp, IoInput<SimReader>>, F>;);
caps!([F: Fn((u8, CSp)) -> (u8, CSp) + 'a] WithContext<CSp, MappedInput<u8, CSp, Stream<SimIter<(u8, CSp)>>, F>>;);
// Input::map over inputs that hand out tokens by value (the function derives token and span from the underlying token)
caps!([F: Fn(u8) -> (u8, CSp) + 'a] MappedInput<u8, CSp, IoInput<SimReader>, F>;);
caps!([F: Fn(u8) -> (u8, CSp) + 'a] MappedInput<u8, CSp, bytes::Bytes, F>; exact);
caps!([F: Fn(char) -> (u8, CSp) + 'a] MappedInput<u8, CSp, &'a str, F>; exact);
// mapped (token, span) slice: tokens by reference and slices of the underlying pairs; span_from of a
// mapped input starts at the next token's span and runs to the end-of-input span (srcsim::compare)
caps!([F: Fn(&'a (u8, CSp)) -> (&'a u8, &'a CSp) + 'a] MappedInput<u8, CSp, &'a [(u8, CSp)], F>; slice, borrow, exact);
caps!([F: Fn((u8, CSp)) -> (u8, CSp) + 'a] MappedInput<u8, CSp, Stream<SimIter<(u8, CSp)>>, F>;);

macro_rules! caps_arms_yes {
    ($cx:expr, $sub:ident, $g:expr) => {
        match $g {
            G::Slice(a) => {
                let via_extra = crate::gram::count_nodes(a) % 2 == 0;
                let a = $sub!(a);
                I::slice_of(a, via_extra).expect("harness: input kind lacks SliceInput")
            }
            G::SliceFrom => I::slice_from().expect("harness: input kind lacks SliceInput"),
            G::AnyRef => I::any_ref().expect("harness: input kind lacks BorrowInput"),
            G::SelectRef(v) => {
                let mut mask = 0u64;
                for s in v {
                    mask |= 1 << s;
                }
                I::select_ref(mask).expect("harness: input kind lacks BorrowInput")
            }
            G::SpanFrom => I::span_from_probe().expect("harness: input kind lacks ExactSizeInput"),
            G::CapApi(0, a) => I::ref_api(*a).expect("harness: input kind lacks BorrowInput"),
            G::CapApi(2, a) => I::ref_api_by_value(*a),
            G::CapApi(_, a) => I::slice_api(*a).expect("harness: input kind lacks SliceInput"),
            G::Text(k) => I::text(*k).expect("harness: input kind lacks StrInput (or a borrowed slice type for regex)"),
            G::Nested(inner, n) => I::nested(inner, *n as usize).expect("harness: input kind lacks the nest capability"),
            _ => unreachable!(),
        }
    };
}
macro_rules! caps_arms_no {
    ($cx:expr, $sub:ident, $g:expr) => {{
        let _ = $g;
        panic!("harness: capability node in a builder without capability support")
    }};
}

// with_state(..): not in the sync builder — whether `WithState` is `Sync` is the library's business,
// the harness must build either way
macro_rules! with_state_yes {
    ($erase:ident, $cx:expr, $a:expr, $k:expr) => {
        $erase!($cx, $a.with_state(Insp { n: 3, h: $k as u64 }))
    };
}
macro_rules! with_state_no {
    ($erase:ident, $cx:expr, $a:expr, $k:expr) => {{
        let _ = $k;
        $a
    }};
}

macro_rules! define_builder {
    ($name:ident, $handle:ident, $ibound:path, $erase:ident, $rec:ident, $value_arms:ident, $nested:ident, $caps_arms:ident, $wstate:ident) => {
        pub fn $name<'a, I>(g: &G, cx: &mut Cx<'a, $handle<'a, I>>) -> $handle<'a, I>
        where
            I: $ibound,
            I::Token: Tok,
            I::Span: SpanX,
        {
            macro_rules! sub {
                ($x:expr) => {
                    $name::<I>($x, cx)
                };
            }
            match g {
                G::Just(s) => $erase!(cx, just(I::Token::from_sym(*s)).map(|t: I::Token| Val::Tok(t.to_sym()))),
                G::JustSeq(v) => {
                    let seq: Vec<I::Token> = v.iter().map(|s| I::Token::from_sym(*s)).collect();
                    $erase!(cx, just(seq).map(|v: Vec<I::Token>| Val::Seq(v.iter().map(|t| Val::Tok(t.to_sym())).collect())))
                }
                G::Custom(a, b) => {
                    let (a, b) = (*a, *b);
                    $erase!(cx, custom(move |inp: &mut InputRef<'a, '_, I, Ex<'a, I>>| {
                        hook::cb();
                        let before = inp.cursor();
                        let t = inp.next_maybe().map(|t| t.to_sym());
                        match t {
                            Some(s) if s == a => Ok(Val::Tok(s)),
                            Some(s) if s == b => {
                                // consume one more token, then fail: a failure that leaves the cursor advanced
                                let _ = inp.next_maybe();
                                Err(Rich::custom(inp.span_since(&before), "custom-b"))
                            }
                            _ => Err(Rich::custom(inp.span_since(&before), "custom-nomatch")),
                        }
                    }))
                }
                G::CustomApi(kind, a) => {
                    let (kind, a) = (*kind, *a);
                    let sub_many = just(I::Token::from_sym(a)).repeated().at_least(1).at_most(3).count();
                    let sub_opt = just(I::Token::from_sym((a + 1) % 8)).or_not();
                    $erase!(cx, custom(move |inp: &mut InputRef<'a, '_, I, Ex<'a, I>>| {
                        hook::cb();
                        let before = inp.cursor();
                        match kind {
                            0 => {
                                // look without consuming, then consume
                                let seen = inp.peek_maybe().map(|t| t.to_sym());
                                match seen {
                                    Some(s) if s == a => {
                                        let got = inp.next_maybe().map(|t| t.to_sym());
                                        Ok(Val::Seq(vec![Val::Tok(s), Val::Tok(got.unwrap_or(255))]))
                                    }
                                    _ => Err(Rich::custom(inp.span_since(&before), "api0-nomatch")),
                                }
                            }
                            1 => {
                                // consume one, checkpoint, consume a second, keep it only if it matches
                                let t1 = inp.next_maybe().map(|t| t.to_sym());
                                if t1 != Some(a) {
                                    return Err(Rich::custom(inp.span_since(&before), "api1-nomatch"));
                                }
                                let m = inp.save();
                                let t2 = inp.next_maybe().map(|t| t.to_sym());
                                if t2 == Some(a) {
                                    Ok(Val::Span(inp.span_since(&before).norm(), Box::new(Val::Num(2))))
                                } else {
                                    inp.rewind(m);
                                    Ok(Val::Span(inp.span_since(&before).norm(), Box::new(Val::Num(1))))
                                }
                            }
                            3 => {
                                // checkpoint shuffle: take a checkpoint before every one of the next few
                                // tokens (and one at the end of input if it is that close), then visit the
                                // checkpoints in a scrambled order — forwards, backwards, to the very end,
                                // one step back from the end — reading one token after every rewind
                                let mut cps = vec![inp.save()];
                                for _ in 0..5 {
                                    if inp.next_maybe().is_none() {
                                        break;
                                    }
                                    cps.push(inp.save());
                                }
                                if cps.len() < 2 {
                                    return Err(Rich::custom(inp.span_since(&before), "api3-eof"));
                                }
                                let n = cps.len();
                                let mut x = a as usize * 7 + 3;
                                let mut seen = Vec::new();
                                for _ in 0..9 {
                                    let j = x % n;
                                    x = x.wrapping_mul(5).wrapping_add(1) % 1009;
                                    inp.rewind(cps[j].clone());
                                    let first = inp.next_maybe().map(|t| t.to_sym()).unwrap_or(254);
                                    // sometimes a second read right behind it (at the end: a second probe)
                                    let second = if x % 3 == 0 { inp.peek_maybe().map(|t| t.to_sym()).unwrap_or(254) } else { 253 };
                                    seen.push(Val::Seq(vec![Val::Num(j as u64), Val::Tok(first), Val::Tok(second)]));
                                }
                                // leave the input after the last token that was stepped over
                                inp.rewind(cps[n - 1].clone());
                                Ok(Val::Span(inp.span_since(&before).norm(), Box::new(Val::Seq(seen))))
                            }
                            _ => {
                                // run sub-parsers from inside a custom parser
                                let n = inp.parse(&sub_many)?;
                                let ok = inp.check(&sub_opt).is_ok();
                                Ok(Val::Span(inp.span_since(&before).norm(), Box::new(Val::Seq(vec![Val::Num(n as u64), Val::Num(ok as u64)]))))
                            }
                        }
                    }))
                }
                G::End => $erase!(cx, end().map(|()| Val::Unit)),
                G::Empty => $erase!(cx, empty().map(|()| Val::Unit)),
                G::Then(a, b) => {
                    let (a, b) = (sub!(a), sub!(b));
                    $erase!(cx, a.then(b).map(|(x, y)| {
                        hook::cb();
                        Val::Seq(vec![x, y])
                    }))
                }
                G::IgnoreThen(a, b) => {
                    let (a, b) = (sub!(a), sub!(b));
                    $erase!(cx, a.ignore_then(b))
                }
                G::ThenIgnore(a, b) => {
                    let (a, b) = (sub!(a), sub!(b));
                    $erase!(cx, a.then_ignore(b))
                }
                G::Delim(i, o, c) => {
                    let (i, o, c) = (sub!(i), sub!(o), sub!(c));
                    $erase!(cx, i.delimited_by(o, c))
                }
                G::PaddedBy(a, p) => {
                    let (a, p) = (sub!(a), sub!(p));
                    $erase!(cx, a.padded_by(p))
                }
                G::Or(a, b) => {
                    let (a, b) = (sub!(a), sub!(b));
                    $erase!(cx, a.or(b))
                }
                G::Choice(v) => {
                    let ps: Vec<$handle<'a, I>> = v.iter().map(|x| sub!(x)).collect();
                    $erase!(cx, choice(ps))
                }
                G::OrNot(a) => {
                    let a = sub!(a);
                    $erase!(cx, a.or_not().map(|o: Option<Val>| Val::Opt(o.map(Box::new))))
                }
                G::AndIs(a, b) => {
                    let (a, b) = (sub!(a), sub!(b));
                    $erase!(cx, a.and_is(b))
                }
                G::Rewind(a) => {
                    let a = sub!(a);
                    $erase!(cx, a.rewind())
                }
                G::Rep { item, min, max, mode } => {
                    let item = sub!(item);
                    let mut r = item.repeated().at_least(*min as usize);
                    if let Some(m) = max {
                        r = if *m == *min { r.exactly(*m as usize) } else { r.at_most(*m as usize) };
                    }
                    match mode {
                        RepMode::Collect => $erase!(cx, r.collect::<Vec<Val>>().map(Val::Seq)),
                        RepMode::Count => $erase!(cx, r.count().map(|n: usize| Val::Num(n as u64))),
                        RepMode::Unit => $erase!(cx, r.map(|()| Val::Unit)),
                        RepMode::Enumerate => $erase!(cx, r.enumerate().collect::<Vec<(usize, Val)>>().map(|v: Vec<(usize, Val)>| Val::Seq(v.into_iter().map(|(i, x)| Val::Seq(vec![Val::Num(i as u64), x])).collect()))),
                        RepMode::Exactly2 => $erase!(cx, r.collect_exactly::<[Val; 2]>().map(|a: [Val; 2]| Val::Seq(a.to_vec()))),
                    }
                }
                G::Sep { item, sep, min, max, lead, trail, mode } => {
                    let (item, sep) = (sub!(item), sub!(sep));
                    let mut r = item.separated_by(sep).at_least(*min as usize);
                    if let Some(m) = max {
                        r = if *m == *min { r.exactly(*m as usize) } else { r.at_most(*m as usize) };
                    }
                    if *lead {
                        r = r.allow_leading();
                    }
                    if *trail {
                        r = r.allow_trailing();
                    }
                    match mode {
                        RepMode::Collect => $erase!(cx, r.collect::<Vec<Val>>().map(Val::Seq)),
                        RepMode::Count => $erase!(cx, r.count().map(|n: usize| Val::Num(n as u64))),
                        RepMode::Unit => $erase!(cx, r.map(|()| Val::Unit)),
                        RepMode::Enumerate => $erase!(cx, r.enumerate().collect::<Vec<(usize, Val)>>().map(|v: Vec<(usize, Val)>| Val::Seq(v.into_iter().map(|(i, x)| Val::Seq(vec![Val::Num(i as u64), x])).collect()))),
                        RepMode::Exactly2 => $erase!(cx, r.collect_exactly::<[Val; 2]>().map(|a: [Val; 2]| Val::Seq(a.to_vec()))),
                    }
                }
                G::FoldWith(true, a, item) => {
                    let (a, item) = (sub!(a), sub!(item));
                    $erase!(cx, a.foldl_with(item.repeated(), |acc: Val, x: Val, e: &mut MapExtra<'a, '_, I, Ex<'a, I>>| {
                        hook::cb();
                        Val::Span(e.span().norm(), Box::new(Val::Num(crate::prng::fold(acc.shape(), x.shape()))))
                    }))
                }
                G::FoldWith(false, item, b) => {
                    let (item, b) = (sub!(item), sub!(b));
                    $erase!(cx, item.repeated().foldr_with(b, |x: Val, acc: Val, e: &mut MapExtra<'a, '_, I, Ex<'a, I>>| {
                        hook::cb();
                        Val::Span(e.span().norm(), Box::new(Val::Num(crate::prng::fold(acc.shape(), x.shape()).rotate_left(9))))
                    }))
                }
                G::Group3(a, b, c) => {
                    let (a, b, c) = (sub!(a), sub!(b), sub!(c));
                    $erase!(cx, chumsky::primitive::group((a, b, c)).map(|(x, y, z): (Val, Val, Val)| {
                        hook::cb();
                        Val::Seq(vec![x, y, z])
                    }))
                }
                G::Choice3(a, b, c) => {
                    let (a, b, c) = (sub!(a), sub!(b), sub!(c));
                    $erase!(cx, choice((a, b, c)))
                }
                G::Un(kind, k, a) => {
                    let (kind, k, a) = (*kind, *k, sub!(a));
                    match kind {
                        0 => $erase!(cx, a.map_err(|e: Rich<'a, I::Token, I::Span>| {
                            hook::cb();
                            e
                        })),
                        1 => $erase!(cx, a.map_err_with_state(|e: Rich<'a, I::Token, I::Span>, _span: I::Span, _st: &mut Insp| {
                            hook::cb();
                            e
                        })),
                        2 => $erase!(cx, a.try_map_with(move |v: Val, e: &mut MapExtra<'a, '_, I, Ex<'a, I>>| {
                            hook::cb();
                            if pred(k, &v) {
                                Ok(Val::Span(e.span().norm(), Box::new(v)))
                            } else {
                                Err(Rich::custom(e.span(), format!("tmw{}", k)))
                            }
                        })),
                        // the sub-parser runs on its own copy of this state, on every invocation
                        3 => $wstate!($erase, cx, a, k),
                        4 => $erase!(cx, a.map(|v: Val| Ok::<Val, String>(v)).unwrapped()),
                        5 => $erase!(cx, a.with_ctx(())),
                        _ => $erase!(cx, chumsky::primitive::map_ctx::<_, Val, I, Ex<'a, I>, Ex<'a, I>, _>(|_: &()| (), a)),
                    }
                }
                G::Foldl(a, item) => {
                    let (a, item) = (sub!(a), sub!(item));
                    $erase!(cx, a.foldl(item.repeated(), |acc: Val, x: Val| {
                        hook::cb();
                        Val::Num(crate::prng::fold(acc.shape(), x.shape()))
                    }))
                }
                G::Foldr(item, b) => {
                    let (item, b) = (sub!(item), sub!(b));
                    $erase!(cx, item.repeated().foldr(b, |x: Val, acc: Val| {
                        hook::cb();
                        Val::Num(crate::prng::fold(acc.shape(), x.shape()).rotate_left(7))
                    }))
                }
                G::MapSpan(a) => {
                    let a = sub!(a);
                    $erase!(cx, a.map_with(|v: Val, e: &mut MapExtra<'a, '_, I, Ex<'a, I>>| {
                        hook::cb();
                        Val::Span(e.span().norm(), Box::new(v))
                    }))
                }
                G::ToSpan(a) => {
                    let a = sub!(a);
                    $erase!(cx, a.to_span().map(|s: I::Span| Val::OnlySpan(s.norm())))
                }
                G::StateProbe(a) => {
                    let a = sub!(a);
                    $erase!(cx, a.map_with(|v: Val, e: &mut MapExtra<'a, '_, I, Ex<'a, I>>| {
                        hook::cb();
                        let st: &mut Insp = e.state();
                        Val::St(st.n, st.h, Box::new(v))
                    }))
                }
                G::Filter(a, k) => {
                    let (a, k) = (sub!(a), *k);
                    $erase!(cx, a.filter(move |v: &Val| {
                        hook::cb();
                        pred(k, v)
                    }))
                }
                G::TryMap(a, k) => {
                    let (a, k) = (sub!(a), *k);
                    $erase!(cx, a.try_map(move |v: Val, span: I::Span| {
                        hook::cb();
                        if pred(k, &v) {
                            Ok(v)
                        } else {
                            Err(Rich::custom(span, format!("try{}", k)))
                        }
                    }))
                }
                G::Validate(a, k) => {
                    let (a, k) = (sub!(a), *k);
                    $erase!(cx, a.validate(move |v: Val, e: &mut MapExtra<'a, '_, I, Ex<'a, I>>, em: &mut chumsky::input::Emitter<Rich<'a, I::Token, I::Span>>| {
                        hook::cb();
                        if !pred(k, &v) {
                            em.emit(Rich::custom(e.span(), format!("val{}", k)));
                        }
                        v
                    }))
                }
                G::Labelled(a, k, ctx) => {
                    let a = sub!(a);
                    let l = LABELS[*k as usize % LABELS.len()];
                    if *ctx {
                        $erase!(cx, a.labelled(l).as_context())
                    } else {
                        $erase!(cx, a.labelled(l))
                    }
                }
                G::Recover(a, s) => {
                    let a = sub!(a);
                    match s {
                        Strat::Via(b) => {
                            let b = sub!(b);
                            $erase!(cx, a.recover_with(via_parser(b)))
                        }
                        Strat::SkipUntil(sk, u) => {
                            let (sk, u) = (sub!(sk), sub!(u));
                            $erase!(cx, a.recover_with(skip_until(sk.ignored(), u.ignored(), || {
                                hook::cb();
                                Val::Fallback(1)
                            })))
                        }
                        Strat::SkipRetry(sk, u) => {
                            let (sk, u) = (sub!(sk), sub!(u));
                            $erase!(cx, a.recover_with(skip_then_retry_until(sk.ignored(), u.ignored())))
                        }
                        Strat::Nested(o, c, o2, c2) => $nested!($erase, cx, a, *o, *c, *o2, *c2),
                    }
                }
                G::Memo(a) => {
                    let a = sub!(a);
                    $erase!(cx, a.memoized())
                }
                G::Ignored(a) => {
                    let a = sub!(a);
                    $erase!(cx, a.ignored().map(|()| Val::Unit))
                }
                G::To(a, k) => {
                    let a = sub!(a);
                    $erase!(cx, a.to(Val::Num(1000 + *k as u64)))
                }
                G::Rec(body) => $rec!($name, cx, &**body),
                G::RecRef => cx.rec.last().expect("harness: RecRef outside Rec").clone(),
                other @ (G::Slice(_) | G::AnyRef | G::SelectRef(_) | G::SpanFrom | G::SliceFrom | G::Text(_) | G::Nested(..) | G::CapApi(..)) => $caps_arms!(cx, sub, other),
                other => $value_arms!($erase, sub, cx, other),
            }
        }
    };
}

define_builder!(build_in, BP, Caps<'a>, erase_boxed, rec_boxed, value_arms_yes, nested_yes, caps_arms_yes, with_state_yes);
define_builder!(build_input_only_in, BP, Input<'a>, erase_boxed, rec_boxed, value_arms_no, nested_no, caps_arms_no, with_state_yes);
define_builder!(build_sync_in, SP, ValueInput<'a>, erase_sync, rec_none, value_arms_yes, nested_no, caps_arms_no, with_state_no);

thread_local! {
    /// Per-thread arena behind the boxed builders (by-reference sub-parsers live here). Cleared by the
    /// pool before every case.
    static NO_ARENA: &'static Arena = Box::leak(Box::new(Arena::default()));
}

/// Must only be called when no parser built on this thread is alive.
pub fn case_arena_clear() {
    NO_ARENA.with(|a| a.clear());
}

pub fn build<'a, I>(g: &G) -> BP<'a, I>
where
    I: Caps<'a>,
    I::Token: Tok,
    I::Span: SpanX,
{
    let arena: &'static Arena = NO_ARENA.with(|a| *a);
    let mut cx = Cx { rec: Vec::new(), arena };
    build_in::<I>(g, &mut cx)
}

pub fn build_input_only<'a, I>(g: &G) -> BP<'a, I>
where
    I: Input<'a>,
    I::Token: Tok,
    I::Span: SpanX,
{
    let arena: &'static Arena = NO_ARENA.with(|a| *a);
    let mut cx = Cx { rec: Vec::new(), arena };
    build_input_only_in::<I>(g, &mut cx)
}

pub fn build_sync<'a, I>(g: &G, arena: &'a Arena) -> SP<'a, I>
where
    I: ValueInput<'a>,
    I::Token: Tok,
    I::Span: SpanX,
{
    let mut cx = Cx { rec: Vec::new(), arena };
    build_sync_in::<I>(g, &mut cx)
}
