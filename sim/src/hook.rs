//! Call-out hook: every user closure in a generated grammar and every simulated source call
//! reports here. The hook counts (logical time), enforces the work budget, injects the
//! "aborted parse" fault, and — under thrsim — is the scheduling point.
//!
//! State is thread-local: srcsim/histsim/lifesim run one case per OS thread at a time; under thrsim
//! every client is its own OS thread (released one at a time by the baton scheduler), so each
//! client has its own counters.

use std::cell::Cell;

pub const ABORT_MSG: &str = "SIM-ABORT: injected panic in user callback";
pub const BUDGET_MSG: &str = "SIM-BUDGET: work budget exceeded";

thread_local! {
    static REENTER_AT: Cell<u64> = const { Cell::new(0) };
    static REENTER_FN: std::cell::RefCell<Option<Box<dyn FnOnce()>>> = const { std::cell::RefCell::new(None) };
    static CALLBACKS: Cell<u64> = const { Cell::new(0) };
    static SOURCE_EVENTS: Cell<u64> = const { Cell::new(0) };
    static ABORT_AT: Cell<u64> = const { Cell::new(0) };
    static CB_BUDGET: Cell<u64> = const { Cell::new(u64::MAX) };
    static SRC_BUDGET: Cell<u64> = const { Cell::new(u64::MAX) };
    static YIELD: Cell<bool> = const { Cell::new(false) };
    static ABORT_FIRED: Cell<bool> = const { Cell::new(false) };
}

/// Reset per-operation counters. `abort_at` = k > 0 makes the k-th callback panic.
pub fn begin_op(abort_at: u64, cb_budget: u64, src_budget: u64) {
    CALLBACKS.with(|c| c.set(0));
    SOURCE_EVENTS.with(|c| c.set(0));
    ABORT_AT.with(|c| c.set(abort_at));
    CB_BUDGET.with(|c| c.set(cb_budget));
    SRC_BUDGET.with(|c| c.set(src_budget));
    ABORT_FIRED.with(|c| c.set(false));
}

pub fn end_op() -> (u64, u64, bool) {
    let r = (
        CALLBACKS.with(|c| c.get()),
        SOURCE_EVENTS.with(|c| c.get()),
        ABORT_FIRED.with(|c| c.get()),
    );
    ABORT_AT.with(|c| c.set(0));
    CB_BUDGET.with(|c| c.set(u64::MAX));
    SRC_BUDGET.with(|c| c.set(u64::MAX));
    r
}

/// Per-operation hook state as a value (kept for harnesses that multiplex clients on one OS thread).
#[derive(Clone, Copy, Debug)]
pub struct Saved(u64, u64, u64, u64, u64, bool, u64, u64);

pub fn save() -> Saved {
    Saved(
        CALLBACKS.with(|c| c.get()),
        SOURCE_EVENTS.with(|c| c.get()),
        ABORT_AT.with(|c| c.get()),
        CB_BUDGET.with(|c| c.get()),
        SRC_BUDGET.with(|c| c.get()),
        ABORT_FIRED.with(|c| c.get()),
        TICKS.with(|c| c.get()),
        TICK_BUDGET.with(|c| c.get()),
    )
}

pub fn restore(s: Saved) {
    CALLBACKS.with(|c| c.set(s.0));
    SOURCE_EVENTS.with(|c| c.set(s.1));
    ABORT_AT.with(|c| c.set(s.2));
    CB_BUDGET.with(|c| c.set(s.3));
    SRC_BUDGET.with(|c| c.set(s.4));
    ABORT_FIRED.with(|c| c.set(s.5));
    TICKS.with(|c| c.set(s.6));
    TICK_BUDGET.with(|c| c.set(s.7));
}

/// Arrange for `f` to run inside the `at`-th user callback of the next operation on this thread.
/// The caller must call `clear_reenter` before anything `f` borrows goes away.
pub fn set_reenter(at: u64, f: Box<dyn FnOnce()>) {
    REENTER_FN.with(|r| *r.borrow_mut() = Some(f));
    REENTER_AT.with(|c| c.set(at));
}

/// Returns true if the re-entrant operation did not run (the callback count was never reached).
pub fn clear_reenter() -> bool {
    REENTER_AT.with(|c| c.set(0));
    REENTER_FN.with(|r| r.borrow_mut().take()).is_some()
}

pub fn set_yield(on: bool) {
    YIELD.with(|c| c.set(on));
}

#[inline]
pub fn cb() {
    let n = CALLBACKS.with(|c| {
        let n = c.get() + 1;
        c.set(n);
        n
    });
    if n > CB_BUDGET.with(|c| c.get()) {
        panic!("{}", BUDGET_MSG);
    }
    if n == ABORT_AT.with(|c| c.get()) {
        ABORT_FIRED.with(|c| c.set(true));
        panic!("{}", ABORT_MSG);
    }
    if n == REENTER_AT.with(|c| c.get()) {
        // a second operation starts while this one is in flight (re-entrant use from a callback)
        if let Some(f) = REENTER_FN.with(|r| r.borrow_mut().take()) {
            REENTER_AT.with(|c| c.set(0));
            let saved = save();
            f();
            restore(saved);
        }
    }
    if YIELD.with(|c| c.get()) {
        crate::thrsim::sched_point();
    }
}

#[inline]
pub fn src_event() {
    let n = SOURCE_EVENTS.with(|c| {
        let n = c.get() + 1;
        c.set(n);
        n
    });
    if n > SRC_BUDGET.with(|c| c.get()) {
        panic!("{}", BUDGET_MSG);
    }
    if YIELD.with(|c| c.get()) {
        crate::thrsim::sched_point();
    }
}

// ---------------------------------------------------------------------------------------------
// Panic capture: parses run under catch_unwind with a silent hook that records message+location.

thread_local! {
    static LAST_PANIC: std::cell::RefCell<Option<String>> = const { std::cell::RefCell::new(None) };
}

pub fn install_panic_hook() {
    std::panic::set_hook(Box::new(|info| {
        let msg = if let Some(s) = info.payload().downcast_ref::<&str>() {
            s.to_string()
        } else if let Some(s) = info.payload().downcast_ref::<String>() {
            s.clone()
        } else {
            "<non-string panic>".to_string()
        };
        let loc = info
            .location()
            .map(|l| {
                // keep the path tail only: /repo/src/x.rs -> src/x.rs, so replays do not depend on cwd
                let f = l.file();
                let f = f.rsplit_once("/src/").map(|(_, t)| t).unwrap_or(f);
                format!("{}:{}", f, l.line())
            })
            .unwrap_or_default();
        if msg.starts_with("harness") || std::env::var_os("VERIF_SHOW_PANICS").is_some() {
            eprintln!("PANIC: {} @ {}", msg, loc);
        }
        LAST_PANIC.with(|p| *p.borrow_mut() = Some(format!("{} @ {}", msg, loc)));
    }));
}

pub fn take_panic() -> String {
    LAST_PANIC.with(|p| p.borrow_mut().take()).unwrap_or_else(|| "<no panic message>".into())
}

thread_local! {
    static TICKS: Cell<u64> = const { Cell::new(0) };
    static TICK_BUDGET: Cell<u64> = const { Cell::new(u64::MAX) };
}

/// Called by the inspector on every consumed token: the universal work counter.
#[inline]
pub fn tick() {
    let n = TICKS.with(|c| {
        let n = c.get() + 1;
        c.set(n);
        n
    });
    if n > TICK_BUDGET.with(|c| c.get()) {
        panic!("{}", BUDGET_MSG);
    }
    // the inspector is a user component too: every token fetch is a call-out, hence a scheduling point
    if YIELD.with(|c| c.get()) {
        crate::thrsim::sched_point();
    }
}

/// Inspector save / rewind notifications: call-outs as well (scheduling points under thrsim).
#[inline]
pub fn inspector_event() {
    if YIELD.with(|c| c.get()) {
        crate::thrsim::sched_point();
    }
}

pub fn begin_ticks(budget: u64) {
    TICKS.with(|c| c.set(0));
    TICK_BUDGET.with(|c| c.set(budget));
}

pub fn end_ticks() -> u64 {
    TICK_BUDGET.with(|c| c.set(u64::MAX));
    TICKS.with(|c| c.get())
}
