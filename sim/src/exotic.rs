//! C10 over *token types*: `&[T]`, `Stream` (plain / boxed / exact-size) and a mapped `(T, span)`
//! slice must agree for any `T`, not only for bytes and chars. A small replica next to srcsim's
//! generated grammars (whose builder is typed over `u8` / `char`): a handful of grammar shapes that
//! backtrack across the whole input, run for token types with unusual properties — zero-sized (`()`
//! and a unit struct: `Vec<T>` never allocates, `capacity()` is `usize::MAX`), large (`[u64; 32]`),
//! heap-owning and not `Copy` (`String`, `Box<u32>`), reference-counted and not `Send` (`Rc<u8>`) —
//! at lengths around the 512-token batch of `Stream`. Outputs are counts and spans only, so one
//! comparison serves every `T`.

use crate::hook;
use crate::sources::{Hint, SimIter};
use chumsky::input::Stream;
use chumsky::prelude::*;
use std::fmt::Debug;
use std::panic::{catch_unwind, AssertUnwindSafe};
use std::rc::Rc;

type E<'a> = extra::Err<Cheap<SimpleSpan<usize>>>;

pub const N_TYPES: u8 = 8;
pub const N_SHAPES: u8 = 4;
pub const TYPE_NAMES: [&str; 8] = ["()", "unit struct", "[u64; 32]", "String", "Box<u32>", "Rc<u8>", "(u8, u64)", "[u64; 520] (4160 bytes: larger than a page)"];

#[derive(Clone, PartialEq, Debug)]
struct Unit;

fn shape<'a, I, T>(shape: u8, t0: T, t1: T) -> Boxed<'a, 'a, I, (usize, usize, usize), E<'a>>
where
    I: chumsky::input::ValueInput<'a, Token = T, Span = SimpleSpan<usize>>,
    T: Clone + PartialEq + Debug + 'a,
{
    match shape {
        // walk everything
        0 => any().repeated().count().map(|n| (n, 0, 0)).boxed(),
        // a run of t0, then the rest; spans of both parts
        1 => just(t0).repeated().count().then(any().repeated().to_span()).map(|(n, s): (usize, SimpleSpan<usize>)| (n, s.start, s.end)).boxed(),
        // read to the very end, fail there, rewind to 0, read again (twice)
        2 => choice((
            any().repeated().then(just(t1.clone())).to((0, 0, 0)),
            any().filter(move |t: &T| *t != t1).repeated().then(end()).to((1, 1, 1)),
            any().repeated().count().map(|n| (n, 2, 2)),
        ))
        .boxed(),
        // look-ahead over the whole input before consuming it, then a failure at the end for inputs that end in t0
        _ => any().repeated().rewind().ignore_then(any().repeated().count()).then(just(t0).not().to_span()).map(|(n, s): (usize, SimpleSpan<usize>)| (n, s.start, s.end)).boxed(),
    }
}

fn show<'a>(r: ParseResult<(usize, usize, usize), Cheap<SimpleSpan<usize>>>) -> String {
    let (o, e) = r.into_output_errors();
    format!("{:?} errs={:?}", o, e.iter().map(|e| (e.span().start, e.span().end)).collect::<Vec<_>>())
}

fn guarded(f: impl FnOnce() -> String) -> String {
    match catch_unwind(AssertUnwindSafe(f)) {
        Ok(s) => s,
        Err(_) => format!("panicked: {}", hook::take_panic()),
    }
}

fn run_all<T: Clone + PartialEq + Debug + 'static>(mk: fn(u8) -> T, syms: &[u8], sh: u8) -> Vec<(&'static str, String)> {
    let toks: Vec<T> = syms.iter().map(|s| mk(*s)).collect();
    let (t0, t1) = (mk(0), mk(1));
    let mut out = Vec::new();
    out.push(("&[T]", guarded(|| show(shape::<&[T], T>(sh, t0.clone(), t1.clone()).parse(&toks[..])))));
    out.push(("Stream", guarded(|| show(shape::<Stream<SimIter<T>>, T>(sh, t0.clone(), t1.clone()).parse(Stream::from_iter(SimIter::new(Rc::new(toks.clone()), Hint::Unknown).0))))));
    out.push(("Stream.boxed()", guarded(|| show(shape::<chumsky::input::BoxedStream<'_, T>, T>(sh, t0.clone(), t1.clone()).parse(Stream::from_iter(SimIter::new(Rc::new(toks.clone()), Hint::Loose(2, 3)).0).boxed())))));
    out.push((
        "Stream.exact_size_boxed()",
        guarded(|| show(shape::<chumsky::input::BoxedExactSizeStream<'_, T>, T>(sh, t0.clone(), t1.clone()).parse(Stream::from_iter(SimIter::new(Rc::new(toks.clone()), Hint::Exact).0).exact_size_boxed()))),
    ));
    // mapped (token, span) slice with contiguous unit-width spans: spans coincide with indices
    let pairs: Vec<(T, SimpleSpan<usize>)> = toks.iter().cloned().enumerate().map(|(i, t)| (t, (i..i + 1).into())).collect();
    let n = toks.len();
    out.push((
        "(&[(T, span)]).map(..)",
        guarded(|| {
            fn f<'x, T>(ts: &'x (T, SimpleSpan<usize>)) -> (&'x T, &'x SimpleSpan<usize>) {
                (&ts.0, &ts.1)
            }
            show(shape::<chumsky::input::MappedInput<T, SimpleSpan<usize>, &[(T, SimpleSpan<usize>)], _>, T>(sh, t0.clone(), t1.clone()).parse((&pairs[..]).map((n..n).into(), f)))
        }),
    ));
    out
}

/// Some((expected, observed)) if a kind disagrees with `&[T]`.
pub fn check(ty: u8, syms: &[u8], sh: u8) -> Option<(String, String)> {
    let res = match ty {
        0 => run_all::<()>(|_| (), syms, sh),
        1 => run_all::<Unit>(|_| Unit, syms, sh),
        2 => run_all::<[u64; 32]>(|s| [s as u64; 32], syms, sh),
        3 => run_all::<String>(|s| format!("tok{}", s), syms, sh),
        4 => run_all::<Box<u32>>(|s| Box::new(s as u32), syms, sh),
        5 => run_all::<Rc<u8>>(|s| Rc::new(s), syms, sh),
        6 => run_all::<(u8, u64)>(|s| (s, s as u64 * 3), syms, sh),
        _ => run_all::<[u64; 520]>(|s| [s as u64; 520], syms, sh),
    };
    let reference = res[0].1.clone();
    for (kind, got) in &res[1..] {
        // shapes 1 and 3 report spans that can be empty; empty spans of mapped inputs follow their own
        // rule (DESIGN §3), so the mapped kind is compared on the span-free shapes only
        if kind.starts_with("(&[") && (sh == 1 || sh == 3) {
            continue;
        }
        if *got != reference {
            return Some((format!("&[T] gives {}", reference), format!("{} gives {}", kind, got)));
        }
    }
    None
}
