//! C10 — the result does not depend on how the input is represented.
//!
//! One case = one grammar, a few token sequences, and for each sequence every input kind fed the
//! same tokens through a simulated source. Reference (single copy) = the same grammar on `&[T]`.

use crate::build::{build, build_input_only, BP};
use crate::gram::{self, GenCfg, RepMode, G};
use crate::hook;
use crate::norm::{exec, PMode};
use crate::pool::{Acc, Engine, Violation};
use crate::prng::{fold, Rng};
use crate::sources::*;
use crate::gram::Need;
use crate::tok::Tok;
use crate::val::{Outcome, Sp};
use chumsky::input::{Input, IoInput, IterInput, Stream};
use chumsky::span::SimpleSpan;
use serde::{Deserialize, Serialize};
use serde_json::{json, Value};
use std::panic::{catch_unwind, AssertUnwindSafe};
use std::rc::Rc;

pub const CTX: u32 = 7;
pub const MS_MUL: usize = 3;
pub const MS_ADD: usize = 7;
pub const MS_CTX: u32 = 9;
pub const CTX2_ADD: u32 = 1000;
/// context of the end-of-input span handed to `Input::map` / `IterInput::new`, and of token i (TOK_CTX0 + i % 3)
pub const EOI_CTX: u32 = 5;
pub const TOK_CTX0: u32 = 11;

#[derive(Clone, Copy, Debug, PartialEq, Eq, PartialOrd, Ord, Hash, Serialize, Deserialize)]
pub enum Kind {
    Slice,
    Array,
    Stream,
    StreamBoxed,
    StreamExact,
    Io,
    Bytes,
    MappedSlice,
    MappedStream,
    IterInput,
    CtxSlice,
    CtxStream,
    CtxIo,
    MapSpanSlice,
    MapSpanStream,
    MapSpanIo,
    CharSlice,
    Str,
    CharStream,
    CtxStr,
    MapSpanStr,
    /// wrappers stacked on wrappers
    CtxOfMapSpanStream,
    MapSpanOfCtxSlice,
    MapSpanOfCtxIo,
    CtxOfMappedStream,
    /// `Input::map` over inputs that hand out tokens BY VALUE: the mapping function computes the
    /// (token, span) pair from the underlying token, which encodes (position, symbol) — a byte
    /// `k * 8 + sym` for readers and `Bytes` (<= 32 tokens over <= 8 symbols), a private-use
    /// character `U+E000 + k * 32 + sym` for `&str`
    MappedIo,
    MappedBytes,
    MappedStr,
}

pub const U8_KINDS: &[Kind] = &[
    Kind::Array,
    Kind::Stream,
    Kind::StreamBoxed,
    Kind::StreamExact,
    Kind::Io,
    Kind::Bytes,
    Kind::MappedSlice,
    Kind::MappedStream,
    Kind::IterInput,
    Kind::CtxSlice,
    Kind::CtxStream,
    Kind::CtxIo,
    Kind::MapSpanSlice,
    Kind::MapSpanStream,
    Kind::MapSpanIo,
    Kind::CtxOfMapSpanStream,
    Kind::MapSpanOfCtxSlice,
    Kind::MapSpanOfCtxIo,
    Kind::CtxOfMappedStream,
    Kind::MappedIo,
    Kind::MappedBytes,
    Kind::MappedStr,
];
pub const CHAR_KINDS: &[Kind] = &[Kind::Str, Kind::CharStream, Kind::CtxStr, Kind::MapSpanStr];
/// Kinds exercised on the long (batch / buffer boundary) inputs.
pub const LONG_KINDS: &[Kind] = &[Kind::Stream, Kind::StreamBoxed, Kind::StreamExact, Kind::Io, Kind::MappedStream, Kind::CtxStream, Kind::MapSpanIo, Kind::Bytes, Kind::CtxOfMapSpanStream, Kind::MapSpanOfCtxIo, Kind::MappedStr];

impl Kind {
    pub fn is_mapped(self) -> bool {
        matches!(self, Kind::MappedSlice | Kind::MappedStream | Kind::IterInput | Kind::CtxOfMappedStream | Kind::MappedIo | Kind::MappedBytes | Kind::MappedStr)
    }
    pub fn uses_reader(self) -> bool {
        matches!(self, Kind::Io | Kind::CtxIo | Kind::MapSpanIo | Kind::MapSpanOfCtxIo | Kind::MappedIo)
    }
    pub fn uses_iter(self) -> bool {
        matches!(self, Kind::Stream | Kind::StreamBoxed | Kind::StreamExact | Kind::MappedStream | Kind::CtxStream | Kind::MapSpanStream | Kind::CharStream | Kind::IterInput | Kind::CtxOfMapSpanStream | Kind::CtxOfMappedStream)
    }
    /// SliceInput, BorrowInput, ExactSizeInput-with-index-rebasing, StrInput, StrInput with borrowed
    /// slices — must agree with the `caps!` table in build.rs
    pub fn caps(self) -> Need {
        let n = |slice, borrow, exact, strin, regex| Need { slice, borrow, exact, strin, regex, nest: false };
        let nest = matches!(
            self,
            Kind::Slice | Kind::Bytes | Kind::Stream | Kind::StreamBoxed | Kind::StreamExact | Kind::Io | Kind::CtxSlice | Kind::CtxStream | Kind::CtxIo
        );
        let mut need = self.caps_base(n);
        need.nest = nest;
        need
    }
    fn caps_base(self, n: impl Fn(bool, bool, bool, bool, bool) -> Need) -> Need {
        match self {
            Kind::Slice | Kind::Array | Kind::CtxSlice | Kind::MapSpanSlice | Kind::MapSpanOfCtxSlice => n(true, true, true, true, true),
            Kind::CharSlice => n(true, true, true, false, false),
            Kind::Str | Kind::CtxStr | Kind::MapSpanStr => n(true, false, true, true, true),
            Kind::Bytes => n(true, false, true, true, false),
            Kind::MappedSlice => n(true, true, true, false, false),
            Kind::MappedBytes | Kind::MappedStr => n(false, false, true, false, false),
            Kind::StreamExact => n(false, false, true, false, false),
            _ => Need::default(),
        }
    }
    /// The single-copy reference for a case: the plain slice of tokens; for character cases whose
    /// grammar needs StrInput (text parsers, regex) `&[char]` does not qualify, so `&str` is the
    /// reference and the wrapped `&str` kinds are compared with it.
    pub fn reference_for(need: &Need, is_char: bool) -> Kind {
        if !is_char {
            Kind::Slice
        } else if need.strin {
            Kind::Str
        } else {
            Kind::CharSlice
        }
    }
    pub fn byte_encodable(syms: &[u8]) -> bool {
        syms.len() <= 32 && syms.iter().all(|s| *s < 8)
    }
    pub fn char_encodable(syms: &[u8]) -> bool {
        syms.len() < 32_000 && syms.iter().all(|s| *s < 32)
    }
    pub fn is_char(self) -> bool {
        matches!(self, Kind::CharSlice | Kind::Str | Kind::CharStream | Kind::CtxStr | Kind::MapSpanStr)
    }
}

/// Everything the environment decides for one (input, kind) run — explicit, so replay never needs the PRNG.
#[derive(Clone, Debug, PartialEq, Serialize, Deserialize)]
pub struct Env {
    pub policy: ReaderPolicy,
    pub reader_seed: u64,
    /// When present, the reader replays this decision trace instead of drawing from (policy, seed).
    pub trace: Option<Vec<RAct>>,
    pub hint: Hint,
    /// Token spans for mapped kinds (gapped, uneven), plus the end-of-input span.
    pub mspans: Vec<(usize, usize)>,
    pub eoi: (usize, usize),
    /// Character kinds run on the ASCII text of the byte alphabet and are compared with the `&[u8]`
    /// reference of a byte case (same text as `&str` and as `&[u8]`).
    #[serde(default)]
    pub ascii_chars: bool,
    /// Character kinds: the eight abstract symbols stand for the code points of `tok::ALT_CHARS`
    /// (U+FEFF, NUL, U+FFFD, U+10FFFF, DEL, U+0080, U+D7FF, U+E000).
    #[serde(default)]
    pub alt_chars: bool,
}

#[derive(Clone, Debug, Default)]
pub struct RunStats {
    pub reader: Option<ReaderLog>,
    pub iter: Option<IterLog>,
    pub ticks: u64,
    pub callbacks: u64,
    pub src_events: u64,
}

pub struct KindRun {
    pub outcome: Outcome,
    pub stats: RunStats,
}

fn mk_reader(bytes: &Rc<Vec<u8>>, env: &Env) -> (SimReader, Rc<std::cell::RefCell<ReaderLog>>) {
    match &env.trace {
        Some(t) => SimReader::replay(bytes.clone(), t.clone(), env.policy.sticky_at, env.policy.prefix),
        None => SimReader::new(bytes.clone(), env.policy.clone(), Rng::new(env.reader_seed)),
    }
}

/// Run grammar `g` over `syms` presented as `kind`. `budget` = (ticks, callbacks, source events).
pub fn run_kind(g: &G, syms: &[u8], kind: Kind, mode: PMode, env: &Env, budget: (u64, u64, u64)) -> KindRun {
    let mut stats = RunStats::default();
    hook::begin_op(0, budget.1, budget.2);
    hook::begin_ticks(budget.0);
    let mut rlog = None;
    let mut ilog = None;
    type SS = SimpleSpan<usize>;
    type CS = SimpleSpan<usize, u32>;
    let ms = |s: SS| -> CS { SimpleSpan { start: s.start * MS_MUL + MS_ADD, end: s.end * MS_MUL + MS_ADD, context: MS_CTX } };
    // second layer: re-maps an already contextualised span
    let ms2 = |s: CS| -> CS { SimpleSpan { start: s.start * MS_MUL + MS_ADD, end: s.end * MS_MUL + MS_ADD, context: s.context + CTX2_ADD } };
    // mapped kinds: every token carries its own span WITH its own context (as tokens that come from
    // several files / macro expansions do); spans of the input recombine the end-of-input span's context
    let eoi: CS = SimpleSpan { start: env.eoi.0, end: env.eoi.1, context: EOI_CTX };

    macro_rules! value {
        ($I:ty, $mk:expr) => {{
            let r = catch_unwind(AssertUnwindSafe(|| build::<$I>(g)));
            match r {
                Ok(p) => exec::<$I, BP<'_, $I>, _>(&p, || $mk, mode, 0),
                Err(_) => Outcome::Panicked { msg: hook::take_panic() },
            }
        }};
    }

    struct AsciiGuard;
    impl Drop for AsciiGuard {
        fn drop(&mut self) {
            crate::tok::set_ascii_chars(false);
            crate::tok::set_alt_chars(false);
        }
    }
    let _ascii = AsciiGuard;
    crate::tok::set_ascii_chars(env.ascii_chars && kind.is_char());
    crate::tok::set_alt_chars(env.alt_chars && !env.ascii_chars && kind.is_char());
    let outcome = if !kind.is_char() {
        let toks: Vec<u8> = syms.iter().map(|s| u8::from_sym(*s)).collect();
        let rc = Rc::new(toks.clone());
        let pairs: Vec<(u8, CS)> = toks.iter().zip(env.mspans.iter()).enumerate().map(|(i, (t, (a, b)))| (*t, SimpleSpan { start: *a, end: *b, context: TOK_CTX0 + (i % 3) as u32 })).collect();
        match kind {
            Kind::Slice => value!(&[u8], &toks[..]),
            Kind::Array => {
                macro_rules! arr {
                    ($n:literal) => {{
                        let a: &[u8; $n] = toks[..].try_into().unwrap();
                        value!(&[u8; $n], a)
                    }};
                }
                match toks.len() {
                    1 => arr!(1),
                    3 => arr!(3),
                    6 => arr!(6),
                    _ => panic!("harness: Array kind needs length 1, 3 or 6"),
                }
            }
            Kind::Stream => {
                let (it, log) = SimIter::new(rc.clone(), env.hint);
                ilog = Some(log);
                value!(Stream<SimIter<u8>>, Stream::from_iter(it))
            }
            Kind::StreamBoxed => {
                let (it, log) = SimIter::new(rc.clone(), env.hint);
                ilog = Some(log);
                value!(chumsky::input::BoxedStream<'_, u8>, Stream::from_iter(it).boxed())
            }
            Kind::StreamExact => {
                let (it, log) = SimIter::new(rc.clone(), Hint::Exact);
                ilog = Some(log);
                value!(chumsky::input::BoxedExactSizeStream<'_, u8>, Stream::from_iter(it).exact_size_boxed())
            }
            Kind::Io => {
                let (rd, log) = mk_reader(&rc, env);
                rlog = Some(log);
                value!(IoInput<SimReader>, IoInput::new(rd))
            }
            Kind::Bytes => value!(bytes::Bytes, bytes::Bytes::from(toks.clone())),
            Kind::MappedSlice => {
                fn f<'x>(ts: &'x (u8, CS)) -> (&'x u8, &'x CS) {
                    (&ts.0, &ts.1)
                }
                value!(chumsky::input::MappedInput<u8, CS, &[(u8, CS)], _>, (&pairs[..]).map(eoi, f))
            }
            Kind::MappedStream => {
                let (it, log) = SimIter::new(Rc::new(pairs.clone()), env.hint);
                ilog = Some(log);
                let f = |ts: (u8, CS)| (ts.0, ts.1);
                value!(chumsky::input::MappedInput<u8, CS, Stream<SimIter<(u8, CS)>>, _>, Stream::from_iter(it).map(eoi, f))
            }
            Kind::IterInput => {
                let (it, log) = SimCloneIter::new(Rc::new(pairs.clone()), env.hint);
                ilog = Some(log);
                let r = catch_unwind(AssertUnwindSafe(|| build_input_only::<IterInput<SimCloneIter<(u8, CS)>, CS>>(g)));
                match r {
                    Ok(p) => exec::<IterInput<SimCloneIter<(u8, CS)>, CS>, _, _>(&p, || IterInput::new(it, eoi), mode, 0),
                    Err(_) => Outcome::Panicked { msg: hook::take_panic() },
                }
            }
            Kind::CtxSlice => value!(chumsky::input::WithContext<CS, &[u8]>, (&toks[..]).with_context::<CS>(CTX)),
            Kind::CtxStream => {
                let (it, log) = SimIter::new(rc.clone(), env.hint);
                ilog = Some(log);
                value!(chumsky::input::WithContext<CS, Stream<SimIter<u8>>>, Stream::from_iter(it).with_context::<CS>(CTX))
            }
            Kind::CtxIo => {
                let (rd, log) = mk_reader(&rc, env);
                rlog = Some(log);
                value!(chumsky::input::WithContext<CS, IoInput<SimReader>>, IoInput::new(rd).with_context::<CS>(CTX))
            }
            Kind::MapSpanSlice => value!(chumsky::input::MappedSpan<CS, &[u8], _>, (&toks[..]).map_span(ms)),
            Kind::MapSpanStream => {
                let (it, log) = SimIter::new(rc.clone(), env.hint);
                ilog = Some(log);
                value!(chumsky::input::MappedSpan<CS, Stream<SimIter<u8>>, _>, Stream::from_iter(it).map_span(ms))
            }
            Kind::MapSpanIo => {
                let (rd, log) = mk_reader(&rc, env);
                rlog = Some(log);
                value!(chumsky::input::MappedSpan<CS, IoInput<SimReader>, _>, IoInput::new(rd).map_span(ms))
            }
            Kind::CtxOfMapSpanStream => {
                let (it, log) = SimIter::new(rc.clone(), env.hint);
                ilog = Some(log);
                value!(chumsky::input::WithContext<CS, chumsky::input::MappedSpan<CS, Stream<SimIter<u8>>, _>>, Stream::from_iter(it).map_span(ms).with_context::<CS>(CTX))
            }
            Kind::MapSpanOfCtxSlice => value!(chumsky::input::MappedSpan<CS, chumsky::input::WithContext<CS, &[u8]>, _>, (&toks[..]).with_context::<CS>(CTX).map_span(ms2)),
            Kind::MapSpanOfCtxIo => {
                let (rd, log) = mk_reader(&rc, env);
                rlog = Some(log);
                value!(chumsky::input::MappedSpan<CS, chumsky::input::WithContext<CS, IoInput<SimReader>>, _>, IoInput::new(rd).with_context::<CS>(CTX).map_span(ms2))
            }
            Kind::MappedIo | Kind::MappedBytes => {
                // underlying byte = position * 8 + symbol
                let enc: Vec<u8> = syms.iter().enumerate().map(|(k, s)| (k * 8) as u8 + *s).collect();
                assert!(Kind::byte_encodable(syms), "harness: MappedIo/MappedBytes need <= 32 tokens over <= 8 symbols");
                let spans: Vec<CS> = pairs.iter().map(|p| p.1).collect();
                let f = move |b: u8| (u8::from_sym(b % 8), spans[(b / 8) as usize]);
                if kind == Kind::MappedIo {
                    let (rd, log) = mk_reader(&Rc::new(enc), env);
                    rlog = Some(log);
                    value!(chumsky::input::MappedInput<u8, CS, IoInput<SimReader>, _>, IoInput::new(rd).map(eoi, f))
                } else {
                    value!(chumsky::input::MappedInput<u8, CS, bytes::Bytes, _>, bytes::Bytes::from(enc).map(eoi, f))
                }
            }
            Kind::MappedStr => {
                // underlying character = U+E000 + position * 32 + symbol (1..4-byte private-use characters)
                assert!(Kind::char_encodable(syms), "harness: MappedStr needs < 32000 tokens over <= 32 symbols");
                let text: String = syms.iter().enumerate().map(|(k, s)| char::from_u32(0xE000 + (k as u32) * 32 + *s as u32).unwrap()).collect();
                let spans: Vec<CS> = pairs.iter().map(|p| p.1).collect();
                let f = move |c: char| {
                    let v = c as u32 - 0xE000;
                    (u8::from_sym((v % 32) as u8), spans[(v / 32) as usize])
                };
                value!(chumsky::input::MappedInput<u8, CS, &str, _>, (&text[..]).map(eoi, f))
            }
            Kind::CtxOfMappedStream => {
                let (it, log) = SimIter::new(Rc::new(pairs.clone()), env.hint);
                ilog = Some(log);
                let f = |ts: (u8, CS)| (ts.0, ts.1);
                value!(chumsky::input::WithContext<CS, chumsky::input::MappedInput<u8, CS, Stream<SimIter<(u8, CS)>>, _>>, Stream::from_iter(it).map(eoi, f).with_context::<CS>(CTX))
            }
            _ => unreachable!(),
        }
    } else {
        let toks: Vec<char> = syms.iter().map(|s| char::from_sym(*s)).collect();
        let text: String = toks.iter().collect();
        match kind {
            Kind::CharSlice => value!(&[char], &toks[..]),
            Kind::Str => value!(&str, &text[..]),
            Kind::CharStream => {
                let (it, log) = SimIter::new(Rc::new(toks.clone()), env.hint);
                ilog = Some(log);
                value!(Stream<SimIter<char>>, Stream::from_iter(it))
            }
            Kind::CtxStr => value!(chumsky::input::WithContext<CS, &str>, (&text[..]).with_context::<CS>(CTX)),
            Kind::MapSpanStr => value!(chumsky::input::MappedSpan<CS, &str, _>, (&text[..]).map_span(ms)),
            _ => unreachable!(),
        }
    };
    let (cbs, srcs, _) = hook::end_op();
    stats.ticks = hook::end_ticks();
    stats.callbacks = cbs;
    stats.src_events = srcs;
    stats.reader = rlog.map(|l| l.borrow().clone());
    stats.iter = ilog.map(|l| l.borrow().clone());
    KindRun { outcome, stats }
}

/// The documented re-basing of a reference index span [i, j) for each kind.
pub fn rebase(ref_kind: Kind, kind: Kind, syms: &[u8], env: &Env) -> Box<dyn Fn(Sp) -> Sp> {
    if env.ascii_chars && kind.is_char() {
        // same ASCII text as the byte reference: byte offsets are indices
        return match kind {
            Kind::CtxStr => Box::new(|s: Sp| Sp(CTX, s.1, s.2)),
            Kind::MapSpanStr => Box::new(|s: Sp| Sp(MS_CTX, s.1 * MS_MUL + MS_ADD, s.2 * MS_MUL + MS_ADD)),
            _ => Box::new(|s| s),
        };
    }
    if ref_kind == Kind::Str {
        // the reference already speaks byte offsets: only the wrappers re-base
        return match kind {
            Kind::CtxStr => Box::new(|s: Sp| Sp(CTX, s.1, s.2)),
            Kind::MapSpanStr => Box::new(|s: Sp| Sp(MS_CTX, s.1 * MS_MUL + MS_ADD, s.2 * MS_MUL + MS_ADD)),
            _ => Box::new(|s| s),
        };
    }
    match kind {
        Kind::Slice | Kind::Array | Kind::Stream | Kind::StreamBoxed | Kind::StreamExact | Kind::Io | Kind::Bytes | Kind::CharSlice | Kind::CharStream => {
            Box::new(|s| s)
        }
        Kind::Str | Kind::CtxStr | Kind::MapSpanStr => {
            let mut off = vec![0usize];
            for s in syms {
                off.push(off.last().unwrap() + crate::tok::char_for(*s, env.alt_chars).len_utf8());
            }
            Box::new(move |s: Sp| {
                let (a, b) = (off[s.1.min(off.len() - 1)], off[s.2.min(off.len() - 1)]);
                match kind {
                    Kind::Str => Sp(0, a, b),
                    Kind::CtxStr => Sp(CTX, a, b),
                    _ => Sp(MS_CTX, a * MS_MUL + MS_ADD, b * MS_MUL + MS_ADD),
                }
            })
        }
        Kind::CtxSlice | Kind::CtxStream | Kind::CtxIo => Box::new(|s| Sp(CTX, s.1, s.2)),
        Kind::MapSpanSlice | Kind::MapSpanStream | Kind::MapSpanIo => Box::new(|s| Sp(MS_CTX, s.1 * MS_MUL + MS_ADD, s.2 * MS_MUL + MS_ADD)),
        // with_context over map_span: the outer context replaces the inner one, offsets stay mapped
        Kind::CtxOfMapSpanStream => Box::new(|s| Sp(CTX, s.1 * MS_MUL + MS_ADD, s.2 * MS_MUL + MS_ADD)),
        // map_span over with_context: the function sees the contextualised span
        Kind::MapSpanOfCtxSlice | Kind::MapSpanOfCtxIo => Box::new(|s| Sp(CTX + CTX2_ADD, s.1 * MS_MUL + MS_ADD, s.2 * MS_MUL + MS_ADD)),
        Kind::CtxOfMappedStream => {
            let m = env.mspans.clone();
            Box::new(move |s: Sp| {
                if s.1 < s.2 && s.2 <= m.len() {
                    Sp(CTX, m[s.1].0, m[s.2 - 1].1)
                } else {
                    Sp::MASKED
                }
            })
        }
        Kind::MappedSlice | Kind::MappedStream | Kind::IterInput | Kind::MappedIo | Kind::MappedBytes | Kind::MappedStr => {
            let m = env.mspans.clone();
            Box::new(move |s: Sp| {
                if s.1 < s.2 && s.2 <= m.len() {
                    Sp(EOI_CTX, m[s.1].0, m[s.2 - 1].1)
                } else {
                    // empty ranges: compared among the mapped kinds only (DESIGN §3)
                    Sp::MASKED
                }
            })
        }
    }
}

#[derive(Debug, Clone, PartialEq, Eq)]
pub enum Cmp {
    Equal,
    /// differs only in how errors are described (found/expected/message/contexts) — not C10's business
    DescriptionOnly,
    Positions,
}

/// Compare what C10 names: acceptance, output, error positions. Returns the expected (re-based) outcome too.
pub fn compare(ref_kind: Kind, kind: Kind, reference: &Outcome, observed: &Outcome, syms: &[u8], env: &Env) -> (Cmp, Outcome, Outcome) {
    let rb = rebase(ref_kind, kind, syms, env);
    let mut exp = reference.clone();
    let mut obs = observed.clone();
    if kind.is_mapped() {
        // mask, position by position, every span whose reference range is empty
        let mut es = Vec::new();
        exp.spans_mut(&mut es);
        let mut os = Vec::new();
        obs.spans_mut(&mut os);
        if es.len() == os.len() {
            for (e, o) in es.into_iter().zip(os.into_iter()) {
                let r = rb(*e);
                if r == Sp::MASKED {
                    *o = Sp::MASKED;
                }
                *e = r;
            }
        } else {
            exp.map_spans(&*rb);
        }
    } else {
        exp.map_spans(&*rb);
    }
    // "the rest of the input" (InputRef::span_from). Unmapped kinds: the ordinary re-basing. Mapped kinds:
    // the span must START where the span of any other non-empty range starting at that token starts
    // (the first token's own span start, with the end-of-input span's context) and END at the end of
    // the end-of-input span handed to Input::map (documented: that span is what spans "that extend to
    // the end of the input" are made from) or at the end of the last token; an empty rest is compared
    // among the mapped kinds only, like every empty range.
    {
        let mut er = Vec::new();
        exp.rest_spans_mut(&mut er);
        let mut or = Vec::new();
        obs.rest_spans_mut(&mut or);
        if kind.is_mapped() && er.len() == or.len() {
            let m = &env.mspans;
            for (e, o) in er.into_iter().zip(or.into_iter()) {
                let (k, n) = (e.1, e.2);
                if k < n && n <= m.len() {
                    let end = if o.2 == env.eoi.1 { env.eoi.1 } else { m[n - 1].1 };
                    *e = Sp(EOI_CTX, m[k].0, end);
                } else {
                    *e = Sp::MASKED;
                    *o = Sp::MASKED;
                }
            }
        } else {
            for e in er {
                *e = rb(*e);
            }
        }
    }
    let cmp = if exp == obs {
        Cmp::Equal
    } else if exp.positions_only() == obs.positions_only() {
        Cmp::DescriptionOnly
    } else {
        Cmp::Positions
    };
    (cmp, exp, obs)
}

// ---------------------------------------------------------------------------------------------
// Case generation

#[derive(Clone, Debug, Serialize, Deserialize)]
pub struct Replay {
    pub engine: String,
    pub property: String,
    pub seed: u64,
    pub case: u64,
    pub grammar: G,
    pub grammar_sexpr: String,
    pub syms: Vec<u8>,
    pub input_shown: String,
    pub kind: Kind,
    pub mode: PMode,
    pub env: Env,
    pub class: String,
    pub expected: Outcome,
    pub observed: Outcome,
    /// For the mapped-kinds-agree check: the other kind.
    pub against: Option<Kind>,
    /// For the mapped-kinds-agree check: `kind` ran the BY-VALUE TWIN of the grammar (gram::by_value_twin),
    /// `against` the grammar itself; both give the same result on the reference representation.
    #[serde(default)]
    pub twin: bool,
}

pub fn gen_mspans(rng: &mut Rng, n: usize) -> (Vec<(usize, usize)>, (usize, usize)) {
    let mut v = Vec::with_capacity(n);
    let mut p = rng.usize(4);
    for _ in 0..n {
        let a = p + rng.usize(3);
        let b = a + 1 + rng.usize(3);
        v.push((a, b));
        p = b;
    }
    let e0 = p + rng.usize(3);
    (v, (e0, e0 + rng.usize(2)))
}

fn hot_offsets(o: &Outcome, n: usize) -> Vec<usize> {
    let mut c = o.clone();
    let mut v = Vec::new();
    c.spans_mut(&mut v);
    let mut h: Vec<usize> = v.iter().flat_map(|s| [s.1, s.2]).filter(|x| *x <= n).collect();
    h.sort();
    h.dedup();
    if h.len() > 6 {
        // keep the furthest ones: that is where abandoned alternatives stopped
        h = h.split_off(h.len() - 6);
    }
    h
}

/// Long-input templates: grammars that read far ahead and then rewind across the 512-token batch
/// boundary of Stream and the 8 KiB buffer of IoInput.
fn long_case(rng: &mut Rng, n: usize) -> (G, Vec<u8>, u8) {
    let nsym = 6u8;
    let item = |rng: &mut Rng| -> G {
        match rng.below(3) {
            0 => G::OneOf(vec![0, 1, 2]),
            1 => G::Or(Box::new(G::Just(0)), Box::new(G::Or(Box::new(G::Just(1)), Box::new(G::Just(2))))),
            _ => G::NoneOf(vec![3, 4, 5]),
        }
    };
    let rep = |it: G, mode: RepMode| G::Rep { item: Box::new(it), min: 0, max: None, mode };
    let mut body: Vec<u8> = (0..n).map(|_| rng.below(3) as u8).collect();
    let t = rng.below(10);
    let g = match t {
        0 => {
            // x* a | x* b   — second alternative restarts from 0 after reading everything
            body.push(4);
            G::Or(Box::new(G::Then(Box::new(rep(item(rng), RepMode::Count)), Box::new(G::Just(3)))), Box::new(G::Then(Box::new(rep(item(rng), RepMode::Count)), Box::new(G::Just(4)))))
        }
        1 => {
            // (rewind x*) x* — look-ahead over the whole input, then the real thing
            G::Then(Box::new(G::Rewind(Box::new(rep(item(rng), RepMode::Unit)))), Box::new(G::MapSpan(Box::new(rep(item(rng), RepMode::Count)))))
        }
        2 => {
            // x* and_is (x* end-ish)  + trailing token
            body.push(3);
            // (the second parser either walks to the end as well, or looks at a single token: then the
            // position jumps FORWARD from 1 to where x* stopped)
            let second = if rng.chance(1, 2) { rep(G::Any, RepMode::Unit) } else { G::Or(Box::new(item(rng)), Box::new(G::Just(3))) };
            G::Then(Box::new(G::AndIs(Box::new(rep(item(rng), RepMode::Count)), Box::new(second))), Box::new(G::Just(3)))
        }
        3 => {
            // choice of three: two fail at the very end
            body.push(5);
            G::Choice(vec![
                G::Then(Box::new(rep(item(rng), RepMode::Unit)), Box::new(G::Just(3))),
                G::Then(Box::new(G::ToSpan(Box::new(rep(item(rng), RepMode::Unit)))), Box::new(G::Just(4))),
                G::Then(Box::new(G::MapSpan(Box::new(rep(item(rng), RepMode::Count)))), Box::new(G::Just(5))),
            ])
        }
        4 => {
            // pairs with one-token look-back at every step:  (x y | x z)*
            let pair = G::Or(Box::new(G::JustSeq(vec![0, 1])), Box::new(G::JustSeq(vec![0, 2])));
            body = (0..n / 2).flat_map(|_| [0u8, if rng.chance(1, 2) { 1 } else { 2 }]).collect();
            rep(pair, RepMode::Count)
        }
        5 => {
            // recovery at the far end: body fails on the last token, skip_until walks to the end
            body.push(5);
            G::Recover(
                Box::new(G::Then(Box::new(rep(item(rng), RepMode::Count)), Box::new(G::Just(3)))),
                crate::gram::Strat::SkipUntil(Box::new(G::Any), Box::new(G::End)),
            )
        }
        7..=9 => {
            // padded(): InputRef::skip_while over whitespace runs that straddle the 512-token batch
            // boundaries of Stream and the 8 KiB buffer of IoInput (runs start shortly before a
            // boundary and end at, just after or well after it), plus a run at the very end
            const WS: [u8; 4] = [8, 9, 10, 14];
            let mut at = 512usize;
            while at <= body.len() + 4 {
                if rng.chance(3, 4) {
                    let start = at.saturating_sub(rng.usize(5));
                    let len = 1 + rng.usize(8);
                    for p in start..(start + len).min(body.len()) {
                        body[p] = *rng.pick(&WS);
                    }
                }
                at += if at % 8192 == 0 || rng.chance(7, 8) { 512 } else { 8192 - at % 8192 };
            }
            for _ in 0..rng.below(6) {
                let p = rng.usize(body.len().max(1));
                if p < body.len() {
                    body[p] = *rng.pick(&WS);
                }
            }
            let word = G::Padded(Box::new(item(rng)));
            match t {
                7 => {
                    for _ in 0..rng.below(5) {
                        body.push(*rng.pick(&WS));
                    }
                    rep(word, RepMode::Count)
                }
                8 => {
                    // lexer shape: padded words and un-padded punctuation, the latter never skips by itself
                    for p in (7..body.len()).step_by(11) {
                        if body[p] < 8 {
                            body[p] = 3;
                        }
                    }
                    rep(G::Or(Box::new(word), Box::new(G::Just(3))), RepMode::Collect)
                }
                _ => {
                    // x* then a padded closer: the trailing run sits between the closer and the end
                    let boundary = ((body.len() + 256) / 512).max(1) * 512;
                    let n0 = boundary - rng.usize(5);
                    let mut b2: Vec<u8> = (0..n0).map(|_| rng.below(3) as u8).collect();
                    for _ in 0..1 + rng.usize(8) {
                        b2.push(*rng.pick(&WS));
                    }
                    b2.push(3);
                    for _ in 0..rng.below(5) {
                        b2.push(*rng.pick(&WS));
                    }
                    body = b2;
                    G::Then(Box::new(rep(item(rng), RepMode::Count)), Box::new(G::Padded(Box::new(G::Just(3)))))
                }
            }
        }
        _ => {
            // separated list with a late failure, then an alternative
            body = (0..n).map(|i| if i % 2 == 0 { rng.below(3) as u8 } else { 3 }).collect();
            if body.len() % 2 == 0 {
                body.push(0);
            }
            body.push(5);
            let list = |it: G| G::Sep { item: Box::new(it), sep: Box::new(G::Just(3)), min: 1, max: None, lead: false, trail: false, mode: RepMode::Count };
            G::Or(Box::new(G::Then(Box::new(list(item(rng))), Box::new(G::Just(4)))), Box::new(G::Then(Box::new(list(item(rng))), Box::new(G::Just(5)))))
        }
    };
    // the far failure in the MIDDLE of the input: more tokens follow the point where the abandoned
    // alternative stopped, so a reader still has unread bytes buffered when it has to jump back
    // (or, after look-ahead, forward) by more than its buffer
    let (g, body) = if matches!(t, 0 | 2 | 3 | 6) && rng.chance(2, 3) {
        let mut body = body;
        for _ in 0..rng.range(1, 300) {
            body.push(rng.below(3) as u8);
        }
        (G::Then(Box::new(g), Box::new(G::Rep { item: Box::new(G::Any), min: 0, max: None, mode: RepMode::Unit })), body)
    } else {
        (g, body)
    };
    (g, body, nsym)
}

// ---------------------------------------------------------------------------------------------
// Graphemes (C10's last clause): `&Graphemes` must yield exactly the extended grapheme clusters of
// the string. A pure replica (no source behind it, so no fault space): kept small, 1 case in 50.

const GR_PIECES: [&str; 24] = [
    "a", "b", "0", " ", "e\u{301}", "\u{1F468}\u{200D}\u{1F469}\u{200D}\u{1F467}", "\u{1F1E9}\u{1F1EA}", "\u{1F1FA}", "\r\n", "\r", "\n", "\u{1100}\u{1161}\u{11A8}", "\u{AC00}",
    "\u{0915}\u{094D}\u{0937}", "\u{200D}", "\u{FE0F}", "\u{1F44D}\u{1F3FD}", "\u{0E01}\u{0E33}", "\u{0301}", "z\u{0308}\u{0301}", "\u{1F3F4}\u{E0067}\u{E0062}\u{E007F}", "\u{00E9}", "\u{65E5}", "\u{0600}a",
];

pub fn gen_grapheme_text(rng: &mut Rng) -> String {
    let n = rng.range(0, 14);
    let mut s = String::new();
    // one text in four contains a very LONG cluster (a base character under a tall stack of combining
    // marks, or a long ZWJ chain) whose byte width lies around 255/256, 511/512 or (rarely) 65 535/65 536:
    // where a width or an offset kept in a narrow integer wraps
    let long_at = if rng.chance(1, 4) { Some(rng.range(0, n)) } else { None };
    for i in 0..=n {
        if long_at == Some(i) {
            let w = match rng.below(16) {
                0 => rng.range(65_530, 65_545) as usize,
                1..=5 => rng.range(506, 518) as usize,
                _ => rng.range(250, 262) as usize,
            };
            if rng.chance(1, 5) {
                // emoji (4 bytes) joined by ZWJ (3 bytes): about w bytes
                s.push('\u{1F469}');
                for _ in 0..(w / 7) {
                    s.push('\u{200D}');
                    s.push('\u{1F469}');
                }
            } else {
                // odd widths on a 1-byte base, even widths on a 2-byte base; 2-byte marks
                let base = if w % 2 == 1 { "e" } else { "\u{00E9}" };
                s.push_str(base);
                for k in 0..((w - base.len()) / 2) {
                    s.push(if k % 3 == 0 { '\u{0301}' } else { '\u{0308}' });
                }
            }
        }
        if i < n {
            s.push_str(GR_PIECES[rng.usize(GR_PIECES.len())]);
        }
    }
    s
}

/// (cluster text, byte start, byte end) as chumsky's `&Graphemes` input yields them, for three
/// grammar shapes (plain walk; walk, fail at the very end, rewind, walk again; one at a time with
/// a look-ahead and a slice), and acceptance. Panics are outcomes.
pub fn graphemes_via_chumsky(text: &str, shape: u8) -> Result<Vec<(String, usize, usize)>, String> {
    use chumsky::prelude::*;
    use chumsky::text::unicode::{Grapheme, Graphemes};
    type E<'a> = extra::Err<Rich<'a, &'a Grapheme>>;
    let r = catch_unwind(AssertUnwindSafe(|| {
        let inp = Graphemes::new(text);
        let one = || any::<&Graphemes, E>().map_with(|g: &Grapheme, e| (g.as_str().to_string(), e.span().start, e.span().end));
        let res = match shape {
            0 => one().repeated().collect::<Vec<_>>().parse(inp).into_result(),
            1 => {
                // read everything, fail at the very end on a token that is not there, rewind to 0, read again
                let sentinel = Grapheme::digit_zero();
                let first = any::<&Graphemes, E>().filter(|g: &&Grapheme| g.as_str() != "0").repeated().then(just(sentinel)).then(end()).to(Vec::new());
                first.or(one().repeated().collect::<Vec<_>>()).parse(inp).into_result()
            }
            _ => {
                // per cluster: look ahead (rewind), then take it as a slice and compare with the token
                let item = any::<&Graphemes, E>().rewind().ignore_then(any::<&Graphemes, E>().to_slice().map_with(|sl: &Graphemes, e| (sl.as_str().to_string(), e.span().start, e.span().end)));
                item.repeated().collect::<Vec<_>>().parse(inp).into_result()
            }
        };
        res.map_err(|e| format!("rejected: {} error(s)", e.len()))
    }));
    match r {
        Ok(x) => x,
        Err(_) => Err(format!("panicked: {}", hook::take_panic())),
    }
}

pub fn graphemes_reference(text: &str) -> Vec<(String, usize, usize)> {
    use unicode_segmentation::UnicodeSegmentation;
    text.grapheme_indices(true).map(|(i, g)| (g.to_string(), i, i + g.len())).collect()
}

/// Shapes 3 and 4: parsers other than `any()` consume the clusters — literal sequences (`just("..")`
/// with strings that are whole clusters, prefixes of clusters, or several clusters) and the text
/// parsers — each reporting the span it consumed, `any()` as the last alternative. Whatever they
/// accept, a Graphemes input only ever hands out whole extended grapheme clusters, so every span must
/// begin and end on a cluster boundary of the string and the spans must tile it.
pub fn graphemes_spans_via_chumsky(text: &str, shape: u8) -> Result<Vec<(usize, usize)>, String> {
    use chumsky::prelude::*;
    use chumsky::text::unicode::{Grapheme, Graphemes};
    type E<'a> = extra::Err<Rich<'a, &'a Grapheme>>;
    let r = catch_unwind(AssertUnwindSafe(|| {
        let inp = Graphemes::new(text);
        let sp = |s: SimpleSpan<usize>| (s.start, s.end);
        let res = if shape == 5 {
            // after k clusters: ExactSizeInput::span_from(cursor..) must be the span of "everything that
            // is left" — the very span that consuming the rest reports
            let k = text.len() % 4;
            any::<&Graphemes, E>()
                .repeated()
                .at_most(k)
                .to_span()
                .map(sp)
                .then(custom::<_, &Graphemes, _, E>(|inp| {
                    let c = inp.cursor();
                    Ok(inp.span_from(&c..))
                })
                .map(sp))
                .then(any::<&Graphemes, E>().repeated().to_span().map(sp))
                .map(|((a, b), c)| vec![a, b, c])
                .parse(inp)
                .into_result()
        } else if shape == 3 {
            let lit = |l: &'static str| just::<&'static str, &Graphemes, E>(l).to_span().map(sp);
            choice((lit("e"), lit("\r"), lit("a"), lit("\u{1F1E9}"), lit("\u{1F468}"), lit("z\u{308}"), lit("\r\n"), lit("0"), lit("\u{1100}"), lit("ab"), any::<&Graphemes, E>().to_span().map(sp)))
                .repeated()
                .collect::<Vec<_>>()
                .parse(inp)
                .into_result()
        } else {
            choice((
                chumsky::text::whitespace::<&Graphemes, E>().at_least(1).to_span().map(sp).boxed(),
                chumsky::text::ascii::ident::<&Graphemes, E>().to_span().map(sp).boxed(),
                chumsky::text::int::<&Graphemes, E>(10).to_span().map(sp).boxed(),
                any::<&Graphemes, E>().to_span().map(sp).boxed(),
            ))
            .repeated()
            .collect::<Vec<_>>()
            .parse(inp)
            .into_result()
        };
        res.map_err(|e| format!("rejected: {} error(s)", e.len()))
    }));
    match r {
        Ok(x) => x,
        Err(_) => Err(format!("panicked: {}", hook::take_panic())),
    }
}

pub fn graphemes_check(text: &str, shape: u8) -> Option<(String, String)> {
    if shape >= 3 {
        let want = graphemes_reference(text);
        let bounds: std::collections::BTreeSet<usize> = std::iter::once(0).chain(want.iter().map(|c| c.2)).collect();
        let exp = format!("spans that tile 0..{} and lie on the cluster boundaries {:?}", text.len(), bounds);
        if shape == 5 {
            let exp5 = "span_from(cursor..) == span of the rest of the input".to_string();
            return match graphemes_spans_via_chumsky(text, shape) {
                Err(e) => Some((exp5, e)),
                Ok(spans) => {
                    // [consumed prefix, span_from, rest]; an empty rest has an empty span at the end
                    let (from, rest) = (spans[1], spans[2]);
                    let ok = from.1 == text.len() && from.0 == spans[0].1.max(spans[0].0) && (rest == from || (rest.0 == rest.1 && from.0 == from.1));
                    if ok || (text.is_empty() && from == (0, 0)) {
                        None
                    } else {
                        Some((exp5, format!("prefix={:?} span_from={:?} rest={:?} (text is {} bytes)", spans[0], from, rest, text.len())))
                    }
                }
            };
        }
        return match graphemes_spans_via_chumsky(text, shape) {
            Err(e) => Some((exp, e)),
            Ok(spans) => {
                let mut at = 0usize;
                for (a, b) in &spans {
                    if *a != at || b <= a || !bounds.contains(b) {
                        return Some((exp, format!("{:?}", spans)));
                    }
                    at = *b;
                }
                if at != text.len() {
                    return Some((exp, format!("{:?}", spans)));
                }
                None
            }
        };
    }
    let want = graphemes_reference(text);
    // shape 1's first alternative legitimately succeeds when the text ends in a "0" cluster preceded by no other "0"
    let got = graphemes_via_chumsky(text, shape);
    let exp: Result<Vec<(String, usize, usize)>, String> = if shape == 1 && want.last().map(|l| l.0 == "0").unwrap_or(false) && want.iter().filter(|c| c.0 == "0").count() == 1 { Ok(vec![]) } else { Ok(want) };
    if got != exp {
        Some((format!("{:?}", exp), format!("{:?}", got)))
    } else {
        None
    }
}

pub struct SrcSim;

const REF_TICK_CAP: u64 = 400_000;

fn src_budget(w: u64, len: usize) -> (u64, u64, u64) {
    let base = w + len as u64 + 64;
    (16 * base + 1024, 64 * base + 4096, 4096 * base + 1_000_000)
}

fn record_source_stats(acc: &mut Acc, kind: Kind, st: &RunStats, legal: bool) {
    let tag = if legal { "fired" } else { "fired_hard" };
    acc.add("sim_steps.ticks", st.ticks);
    acc.add("sim_steps.callbacks", st.callbacks);
    acc.add("sim_steps.source_events", st.src_events);
    if let Some(r) = &st.reader {
        acc.add(&format!("{}.reader.reads", tag), r.reads);
        acc.add(&format!("{}.reader.short_reads", tag), r.short_reads);
        acc.add(&format!("{}.reader.one_byte_reads", tag), r.one_byte_reads);
        acc.add(&format!("{}.reader.eintr", tag), r.eintr);
        acc.add(&format!("{}.reader.eof_hits", tag), r.eof_hits);
        acc.add(&format!("{}.reader.device_errors", tag), r.fails);
        acc.add(&format!("{}.reader.seeks", tag), r.seeks);
        acc.add(&format!("{}.reader.backward_seeks", tag), r.backward_seeks);
        acc.max("max.reader.backward_seek_distance", r.max_backward);
        acc.max("max.reader.request", r.max_req as u64);
        if r.backward_seeks > 0 {
            acc.inc("runs.reader.with_underlying_backward_seek");
        }
        if r.started_at > 0 {
            acc.inc("runs.reader.pre_advanced(input does not start at device offset 0)");
        }
        if r.max_pos > 8192 {
            acc.inc("runs.reader.crossed_8KiB_buffer");
        }
    }
    if let Some(i) = &st.iter {
        acc.add(&format!("{}.iter.pulls", tag), i.pulls);
        acc.add(&format!("{}.iter.pulls_after_exhaustion", tag), i.pulls_after_exhaustion);
        acc.add(&format!("{}.iter.clones", tag), i.clones);
        if i.items > 512 {
            acc.inc("runs.iter.crossed_512_batch");
        }
    }
    let _ = kind;
}

impl SrcSim {
    fn violation(&self, acc: &mut Acc, seed: u64, idx: u64, class: &str, rp: Replay) {
        let summary = format!(
            "kind={:?} mode={:?} grammar={} input={:?} expected={} observed={}",
            rp.kind,
            rp.mode,
            rp.grammar_sexpr,
            rp.input_shown,
            rp.expected.brief(),
            rp.observed.brief()
        );
        acc.violations.push(Violation {
            property: "C10".into(),
            engine: "srcsim".into(),
            seed,
            case: idx,
            class: class.into(),
            summary,
            replay: serde_json::to_value(&rp).unwrap(),
        });
    }

    /// Run every applicable kind for one (grammar, input). Returns a digest of all outcomes.
    #[allow(clippy::too_many_arguments)]
    fn run_input(&self, seed: u64, idx: u64, rng: &mut Rng, g: &G, syms: &[u8], is_char: bool, long: bool, acc: &mut Acc) -> u64 {
        let mut digest = fold(gram::digest(g), crate::prng::fold_bytes(1, syms));
        let need = gram::needs_caps(g);
        let ref_kind = Kind::reference_for(&need, is_char);
        let (mspans, eoi) = gen_mspans(rng, syms.len());
        // a quarter of the character cases use the alternative code points for the abstract symbols
        let alt_chars = is_char && rng.chance(1, 4);
        if alt_chars {
            acc.inc("cases.char_inputs_with_special_code_points(U+FEFF, NUL, U+FFFD, U+10FFFF, ...)");
        }
        let base_env = Env { policy: ReaderPolicy::full(), reader_seed: 0, trace: None, hint: Hint::Exact, mspans, eoi, ascii_chars: false, alt_chars };
        // byte cases: every third also feeds the same ASCII text through the character kinds (text
        // parsers always). Not with Text(7): `newline()` does not exist for byte inputs, the builder
        // substitutes another parser there.
        let ascii_x = !is_char && !long && !gram::contains(g, &|x| matches!(x, G::Text(7))) && (need.strin || rng.chance(1, 3));
        let needs_value = gram::needs_value_input(g);
        for mode in [PMode::Parse, PMode::Check] {
            // reference: the single copy
            let rrun = run_kind(g, syms, ref_kind, mode, &base_env, (REF_TICK_CAP, u64::MAX, u64::MAX));
            if let Outcome::Panicked { msg } = &rrun.outcome {
                if msg.starts_with(hook::BUDGET_MSG) {
                    acc.inc("cases.discarded_reference_too_heavy");
                    return digest;
                }
                acc.inc("reference.panicked(compared as outcome)");
            }
            let w = rrun.stats.ticks;
            let reference = rrun.outcome;
            digest = fold(digest, reference.digest());
            acc.inc("evaluations.reference_runs");
            match reference.accepted() {
                Some(true) => acc.inc("reference.accepted"),
                Some(false) => acc.inc("reference.rejected"),
                None => {}
            }
            if let Outcome::Finished { out: Some(_), errs } = &reference {
                if !errs.is_empty() {
                    acc.inc("reference.recovered(output+errors)");
                }
            }
            let hot = hot_offsets(&reference, syms.len());
            let mut kinds: Vec<Kind> = if is_char {
                CHAR_KINDS.to_vec()
            } else if long {
                LONG_KINDS.to_vec()
            } else {
                U8_KINDS.to_vec()
            };
            if ascii_x {
                kinds.push(Kind::CharSlice);
                kinds.extend_from_slice(CHAR_KINDS);
            }
            let mut mapped_obs: Vec<(Kind, Outcome, Env, bool)> = Vec::new();
            for kind in kinds {
                if kind == Kind::Array && !matches!(syms.len(), 1 | 3 | 6) {
                    continue;
                }
                if kind == Kind::IterInput && needs_value {
                    continue;
                }
                if matches!(kind, Kind::MappedIo | Kind::MappedBytes) && !Kind::byte_encodable(syms) {
                    continue;
                }
                if kind == Kind::MappedStr && !Kind::char_encodable(syms) {
                    continue;
                }
                if !need.satisfied_by(&kind.caps()) {
                    continue;
                }
                // environments: legal policies carry the equality oracle; hard errors are characterised only
                let n_legal = if kind.uses_reader() { 2 } else { 1 };
                for rep in 0..n_legal {
                    let mut env = base_env.clone();
                    env.ascii_chars = ascii_x && kind.is_char();
                    env.hint = Hint::gen(rng);
                    env.reader_seed = rng.next_u64();
                    env.policy = if rep == 0 && long { ReaderPolicy::full() } else { ReaderPolicy::legal(rng, syms.len(), &hot) };
                    let run = run_kind(g, syms, kind, mode, &env, src_budget(w, syms.len()));
                    digest = fold(digest, run.outcome.digest());
                    if let Outcome::Panicked { msg } = &run.outcome {
                        if msg.starts_with("harness:") {
                            // a bug in the harness itself must never be reported as a violation
                            acc.inc("HARNESS.builder_panic");
                            continue;
                        }
                    }
                    acc.inc("evaluations.replica_runs");
                    if need.slice {
                        acc.inc("replica_runs.with_to_slice");
                    }
                    if need.borrow {
                        acc.inc("replica_runs.with_any_ref/select_ref");
                    }
                    if need.exact {
                        acc.inc("replica_runs.with_span_from");
                    }
                    if crate::gram::contains(g, &|x| matches!(x, G::ValApi(_))) {
                        acc.inc("replica_runs.with_inputref_peek/skip/next(by value)");
                    }
                    if crate::gram::contains(g, &|x| matches!(x, G::CapApi(0, _))) {
                        acc.inc("replica_runs.with_inputref_peek_ref/next_ref");
                    }
                    if crate::gram::contains(g, &|x| matches!(x, G::CapApi(1, _))) {
                        acc.inc("replica_runs.with_inputref_slice/slice_since");
                    }
                    if need.strin {
                        acc.inc("replica_runs.with_text_parsers(StrInput)");
                    }
                    if need.regex {
                        acc.inc("replica_runs.with_regex");
                    }
                    if need.nest {
                        acc.inc("replica_runs.with_nested_in(inner input built from a region of the outer one)");
                    }
                    if gram::contains(g, &|x| matches!(x, G::Padded(_))) {
                        acc.inc("replica_runs.with_padded(skip_while)");
                    }
                    acc.inc(&format!("replica_runs.{:?}{}", kind, if env.ascii_chars { "(ascii text vs &[u8] reference)" } else { "" }));
                    record_source_stats(acc, kind, &run.stats, true);
                    // O3 monitors
                    let mut monitor = None;
                    if let Some(r) = &run.stats.reader {
                        if r.negative_seek {
                            monitor = Some("reader saw a seek to before the start of the input");
                        }
                    }
                    if let Some(i) = &run.stats.iter {
                        if i.order_violation {
                            monitor = Some("iterator items handed out out of order");
                        }
                    }
                    let (cmp, exp, obs) = compare(ref_kind, kind, &reference, &run.outcome, syms, &env);
                    if cmp == Cmp::DescriptionOnly {
                        acc.inc("soft.description_only_differences(not C10)");
                    }
                    let nontrivial = {
                        let consumed2 = w >= 2;
                        let moved_back = run.stats.reader.as_ref().map(|r| r.backward_seeks > 0 || r.short_reads > 0 || r.eintr > 0).unwrap_or(false)
                            || run.stats.iter.as_ref().map(|i| i.clones > 0 || (i.items > 0 && run.stats.ticks > i.items)).unwrap_or(false);
                        consumed2 && moved_back
                    };
                    if nontrivial {
                        acc.distinct("nontrivial_cases", fold(fold(digest, kind as u64), rep));
                    }
                    if cmp == Cmp::Positions || monitor.is_some() {
                        let mut renv = env.clone();
                        if let Some(r) = &run.stats.reader {
                            renv.trace = Some(r.trace.clone());
                        }
                        let class = if monitor.is_some() { "monitor" } else if obs.is_panic() { "panic-or-hang" } else { "mismatch" };
                        let rp = Replay {
                            engine: "srcsim".into(),
                            property: "C10".into(),
                            seed,
                            case: idx,
                            grammar: g.clone(),
                            grammar_sexpr: gram::sexpr(g),
                            syms: syms.to_vec(),
                            input_shown: gram::show_input(syms),
                            kind,
                            mode,
                            env: renv,
                            class: format!("{}:{:?}:{:?}{}", class, kind, mode, monitor.map(|m| format!(":{}", m)).unwrap_or_default()),
                            expected: exp,
                            observed: obs,
                            against: None,
                            twin: false,
                        };
                        let cl = rp.class.clone();
                        self.violation(acc, seed, idx, &cl, rp);
                        return digest;
                    }
                    if kind.is_mapped() {
                        // (the context a wrapper adds on top is removed for the comparison among mapped kinds)
                        let mut o = run.outcome.clone();
                        if kind == Kind::CtxOfMappedStream {
                            o.map_spans(&|s: Sp| if s.0 == CTX { Sp(EOI_CTX, s.1, s.2) } else { s });
                        }
                        mapped_obs.push((kind, o, env.clone(), false));
                    }
                    acc.sample("samples", idx, 6, || {
                        json!({
                            "case": idx, "grammar": gram::sexpr(g), "input": gram::show_input(syms), "kind": format!("{:?}", kind), "mode": format!("{:?}", mode),
                            "reader_policy": if kind.uses_reader() { serde_json::to_value(&env.policy).unwrap() } else { Value::Null },
                            "reader_trace_head": run.stats.reader.as_ref().map(|r| r.trace.iter().take(12).map(|a| format!("{:?}", a)).collect::<Vec<_>>()),
                            "seeks": run.stats.reader.as_ref().map(|r| r.seeks),
                            "iter_pulls": run.stats.iter.as_ref().map(|i| i.pulls),
                            "outcome": run.outcome.brief(),
                        })
                    });
                }
                // hard I/O errors: characterised, never alarmed on (DESIGN §3 O2)
                if kind.uses_reader() && !syms.is_empty() && rng.chance(1, 2) {
                    let mut env = base_env.clone();
                    env.reader_seed = rng.next_u64();
                    env.policy = ReaderPolicy::legal(rng, syms.len(), &hot);
                    let sticky = rng.chance(2, 3);
                    if sticky {
                        env.policy.sticky_at = Some(rng.usize(syms.len() + 1));
                    } else {
                        env.policy.transient_at_read = Some(rng.below(8));
                    }
                    let b = src_budget(w.max(REF_TICK_CAP / 8), syms.len());
                    let run = run_kind(g, syms, kind, mode, &env, b);
                    digest = fold(digest, run.outcome.digest());
                    record_source_stats(acc, kind, &run.stats, false);
                    if sticky {
                        acc.inc("hard_error.sticky_runs");
                        let k = env.policy.sticky_at.unwrap();
                        let pre = run_kind(g, &syms[..k], ref_kind, mode, &base_env, (REF_TICK_CAP, u64::MAX, u64::MAX));
                        let (cmp, _, _) = compare(ref_kind, kind, &pre.outcome, &run.outcome, &syms[..k], &env);
                        if cmp != Cmp::Positions {
                            acc.inc("hard_error.sticky_equals_prefix_parse");
                        }
                        if let Some(r) = &run.stats.reader {
                            if r.read_ok_after_sticky {
                                acc.inc("HARNESS.sticky_self_check_failed");
                            }
                        }
                    } else {
                        acc.inc("hard_error.unchecked_transient_runs");
                    }
                    if run.outcome.is_panic() {
                        acc.inc("hard_error.runs_ending_in_panic_or_budget(characterised only)");
                    }
                }
            }
            // Grammars that take tokens by reference run on one mapped kind only (the slice of pairs), so
            // nothing would be compared with its empty spans: the by-value twin of the grammar — same
            // result on the reference representation, checked here, not assumed — runs on mapped kinds as
            // well and joins the comparison: whatever the re-basing of an empty range is, it is one
            // function of the range, not of how the tokens before it were taken.
            if need.borrow && !mapped_obs.is_empty() && !long {
                let g2 = gram::by_value_twin(g);
                let r2 = run_kind(&g2, syms, ref_kind, mode, &base_env, (REF_TICK_CAP, u64::MAX, u64::MAX));
                if r2.outcome == reference {
                    let need2 = gram::needs_caps(&g2);
                    for kind in [Kind::MappedSlice, Kind::MappedStream] {
                        if !need2.satisfied_by(&kind.caps()) {
                            continue;
                        }
                        let mut env = base_env.clone();
                        env.hint = Hint::Exact;
                        let run = run_kind(&g2, syms, kind, mode, &env, src_budget(w, syms.len()));
                        acc.inc("replica_runs.by_value_twin_on_mapped_kinds");
                        mapped_obs.push((kind, run.outcome, env, true));
                    }
                } else {
                    acc.inc("by_value_twin.differs_on_reference(skipped, not C10)");
                }
            }
            // mapped kinds must agree with each other exactly, empty spans included
            for i in 1..mapped_obs.len() {
                let (k0, o0, _, _) = &mapped_obs[0];
                let (k1, o1, e1, twin) = &mapped_obs[i];
                acc.inc("evaluations.mapped_pair_comparisons");
                if o0.positions_only() != o1.positions_only() {
                    let rp = Replay {
                        engine: "srcsim".into(),
                        property: "C10".into(),
                        seed,
                        case: idx,
                        grammar: g.clone(),
                        grammar_sexpr: gram::sexpr(g),
                        syms: syms.to_vec(),
                        input_shown: gram::show_input(syms),
                        kind: *k1,
                        mode,
                        env: e1.clone(),
                        class: format!("mapped-disagree:{:?}-vs-{:?}{}:{:?}", k0, k1, if *twin { "(by-value twin)" } else { "" }, mode),
                        expected: o0.clone(),
                        observed: o1.clone(),
                        against: Some(*k0),
                        twin: *twin,
                    };
                    let cl = rp.class.clone();
                    self.violation(acc, seed, idx, &cl, rp);
                    return digest;
                }
            }
        }
        digest
    }
}

impl Engine for SrcSim {
    fn name(&self) -> &'static str {
        "srcsim"
    }
    fn property(&self) -> &'static str {
        "C10"
    }
    fn cases(&self, tier: &str) -> u64 {
        if tier == "thorough" {
            4_000_000
        } else {
            60_000
        }
    }
    fn run_case(&self, seed: u64, idx: u64, tier: &str, acc: &mut Acc) -> u64 {
        let mut rng = Rng::for_case(seed, "srcsim", idx);
        acc.inc("evaluations.cases");
        // 1 in 100 cases (quick) is a long-input case around the 512-token batch / 8 KiB buffer constants
        let long_every = if tier == "thorough" { 200 } else { 100 };
        if idx % long_every == long_every - 1 {
            // (one long case in twelve is VERY long: growth strategies of caches and buffers, offsets that
            // no longer fit narrow integer types, thresholds far beyond the two documented constants)
            let very_long = rng.chance(1, 12);
            let n = match if very_long { 10 + rng.below(2) } else { rng.below(10) } {
                10 => rng.log_range(20_000, 70_000) as usize,
                11 => rng.log_range(70_000, if tier == "thorough" { 600_000 } else { 140_000 }) as usize,
                0 => 511,
                1 => 512,
                2 => 513,
                3 => rng.range(1023, 1025) as usize,
                4 => rng.range(1535, 1537) as usize,
                5 => rng.range(500, 530) as usize,
                6 | 7 => rng.range(8100, 8300) as usize,
                8 => rng.range(16300, 16500) as usize,
                _ => rng.range(600, 3000) as usize,
            };
            let (g, syms, _nsym) = long_case(&mut rng, n);
            acc.inc("cases.long_input");
            let d = self.run_input(seed, idx, &mut rng, &g, &syms, false, true, acc);
            acc.distinct("cases", d);
            return d;
        }
        if idx % 50 == 9 {
            // token types other than bytes and chars (see exotic.rs)
            acc.inc("cases.exotic_token_types");
            let mut d = 99u64;
            for _ in 0..3 {
                let ty = rng.below(crate::exotic::N_TYPES as u64) as u8;
                let sh = rng.below(crate::exotic::N_SHAPES as u64) as u8;
                let n = match rng.below(8) {
                    0 => 0,
                    1 => rng.range(1, 5) as usize,
                    2 => 511,
                    3 => 512,
                    4 => 513,
                    5 => rng.range(1020, 1030) as usize,
                    _ => rng.range(0, 700) as usize,
                };
                let mut syms: Vec<u8> = (0..n).map(|_| if rng.chance(3, 4) { 0 } else { 2 }).collect();
                if rng.chance(1, 3) && n > 0 {
                    // ends in t0 / contains t1 somewhere: the shapes' failure points move
                    syms[n - 1] = 0;
                    let at = rng.usize(n);
                    syms[at] = 1;
                }
                acc.inc("evaluations.replica_runs");
                acc.inc(&format!("replica_runs.exotic_tokens.{}", crate::exotic::TYPE_NAMES[ty as usize]));
                d = fold(d, crate::prng::fold_bytes((ty as u64) << 8 | sh as u64, &syms));
                if n > 512 {
                    acc.distinct("nontrivial_cases", fold(d, 0x65));
                }
                if let Some((exp, obs)) = crate::exotic::check(ty, &syms, sh) {
                    let rp = json!({"engine": "srcsim", "property": "C10", "seed": seed, "case": idx, "exotic": {"ty": ty, "type_name": crate::exotic::TYPE_NAMES[ty as usize], "syms": syms, "shape": sh}, "class": "exotic-token-type", "expected": exp, "observed": obs});
                    acc.violations.push(Violation {
                        property: "C10".into(),
                        engine: "srcsim".into(),
                        seed,
                        case: idx,
                        class: "exotic-token-type".into(),
                        summary: format!("token type {} shape={} length={} expected={} observed={}", crate::exotic::TYPE_NAMES[ty as usize], sh, n, exp, obs),
                        replay: rp,
                    });
                    return d;
                }
            }
            acc.distinct("cases", d);
            return d;
        }
        if idx % 50 == 7 {
            acc.inc("cases.graphemes");
            let mut d = 77u64;
            for _ in 0..6 {
                let text = gen_grapheme_text(&mut rng);
                for shape in 0..6u8 {
                    acc.inc("evaluations.replica_runs");
                    acc.inc("replica_runs.Graphemes");
                    d = fold(d, crate::prng::fold_bytes(shape as u64, text.as_bytes()));
                    let nclusters = graphemes_reference(&text).len();
                    acc.add("graphemes.clusters_compared", nclusters as u64);
                    if shape == 0 && graphemes_reference(&text).iter().any(|c| c.0.len() > 255) {
                        acc.inc("graphemes.texts_with_a_cluster_wider_than_255_bytes");
                    }
                    if nclusters >= 2 && graphemes_reference(&text).iter().any(|c| c.0.chars().count() > 1) {
                        acc.distinct("nontrivial_cases", fold(d, 0x67));
                    }
                    if let Some((exp, obs)) = graphemes_check(&text, shape) {
                        let rp = json!({"engine": "srcsim", "property": "C10", "seed": seed, "case": idx, "graphemes": {"text": text, "shape": shape}, "class": "graphemes", "expected": exp, "observed": obs});
                        acc.violations.push(Violation {
                            property: "C10".into(),
                            engine: "srcsim".into(),
                            seed,
                            case: idx,
                            class: "graphemes".into(),
                            summary: format!("kind=Graphemes shape={} text={:?} expected={} observed={}", shape, text, exp, obs),
                            replay: rp,
                        });
                        return d;
                    }
                }
            }
            acc.distinct("cases", d);
            return d;
        }
        let is_char = rng.chance(1, 4);
        let input_only = !is_char && rng.chance(1, 5);
        let mut cfg = GenCfg::swarm(&mut rng, !input_only);
        if !input_only {
            // capability-specific nodes restrict the case to the kinds that have the capability
            cfg.allow_slice = rng.chance(1, 6);
            cfg.allow_borrow = !is_char && rng.chance(1, 8);
            cfg.allow_exact = rng.chance(1, 8);
            // text parsers / regex (StrInput kinds only) and padded() (every ValueInput kind) work on the
            // extended alphabet (whitespace, newlines, digits, underscore)
            cfg.allow_text = rng.chance(1, 8);
            cfg.allow_regex = cfg.allow_text && rng.chance(1, 2);
            cfg.allow_pad = cfg.allow_text || rng.chance(1, 8);
            cfg.allow_nest = !is_char && rng.chance(1, 8);
            if cfg.allow_text || cfg.allow_pad {
                cfg.nsym = crate::tok::NSYM_TEXT;
            }
        }
        let g = gram::generate(&mut rng, &cfg);
        let mut d = 0;
        let n_inputs = rng.range(1, 3);
        for _ in 0..n_inputs {
            let max_len = *rng.pick(&[6usize, 12, 24, 40]);
            let mut syms = gram::gen_input(&g, &mut rng, cfg.nsym, max_len);
            // array kinds need exact lengths: nudge a fraction of the inputs there
            if !is_char && rng.chance(1, 6) {
                let want = *rng.pick(&[1usize, 3, 6]);
                syms.truncate(want);
                while syms.len() < want {
                    syms.push(rng.below(cfg.nsym as u64) as u8);
                }
            }
            d = fold(d, self.run_input(seed, idx, &mut rng, &g, &syms, is_char, false, acc));
            if !acc.violations.is_empty() {
                break;
            }
        }
        acc.distinct("cases", d);
        d
    }
}

// ---------------------------------------------------------------------------------------------
// Replay + minimisation

/// Re-execute a replay document: returns Some(class) if it still fails (same class family).
pub fn replay(rp: &Replay) -> Option<(String, Outcome, Outcome)> {
    let is_char = rp.kind.is_char() && !rp.env.ascii_chars;
    let ref_kind = Kind::reference_for(&gram::needs_caps(&rp.grammar), is_char);
    let base_env = Env { policy: ReaderPolicy::full(), reader_seed: 0, trace: None, hint: Hint::Exact, mspans: rp.env.mspans.clone(), eoi: rp.env.eoi, ascii_chars: false, alt_chars: rp.env.alt_chars };
    if let Some(k0) = rp.against {
        let a = run_kind(&rp.grammar, &rp.syms, k0, rp.mode, &rp.env, (REF_TICK_CAP * 16, u64::MAX, u64::MAX));
        let gb = if rp.twin { gram::by_value_twin(&rp.grammar) } else { rp.grammar.clone() };
        if rp.twin {
            // the twin only counts where both grammars agree on the reference representation
            let ra = run_kind(&rp.grammar, &rp.syms, ref_kind, rp.mode, &base_env, (REF_TICK_CAP, u64::MAX, u64::MAX));
            let rb = run_kind(&gb, &rp.syms, ref_kind, rp.mode, &base_env, (REF_TICK_CAP, u64::MAX, u64::MAX));
            if ra.outcome != rb.outcome {
                return None;
            }
        }
        let b = run_kind(&gb, &rp.syms, rp.kind, rp.mode, &rp.env, (REF_TICK_CAP * 16, u64::MAX, u64::MAX));
        if a.outcome.positions_only() != b.outcome.positions_only() {
            return Some((format!("mapped-disagree:{:?}-vs-{:?}{}:{:?}", k0, rp.kind, if rp.twin { "(by-value twin)" } else { "" }, rp.mode), a.outcome, b.outcome));
        }
        return None;
    }
    let r = run_kind(&rp.grammar, &rp.syms, ref_kind, rp.mode, &base_env, (REF_TICK_CAP, u64::MAX, u64::MAX));
    if let Outcome::Panicked { msg } = &r.outcome {
        if msg.starts_with(hook::BUDGET_MSG) {
            return None;
        }
    }
    let run = run_kind(&rp.grammar, &rp.syms, rp.kind, rp.mode, &rp.env, src_budget(r.stats.ticks, rp.syms.len()));
    let mut monitor = None;
    if let Some(rd) = &run.stats.reader {
        if rd.negative_seek {
            monitor = Some("reader saw a seek to before the start of the input");
        }
    }
    let (cmp, exp, obs) = compare(ref_kind, rp.kind, &r.outcome, &run.outcome, &rp.syms, &rp.env);
    if cmp == Cmp::Positions || monitor.is_some() {
        let class = if monitor.is_some() { "monitor" } else if obs.is_panic() { "panic-or-hang" } else { "mismatch" };
        Some((format!("{}:{:?}:{:?}{}", class, rp.kind, rp.mode, monitor.map(|m| format!(":{}", m)).unwrap_or_default()), exp, obs))
    } else {
        None
    }
}

fn class_family(c: &str) -> &str {
    c.split(':').next().unwrap_or(c)
}

/// Greedy delta-debugging, bounded; keeps the violation family (mismatch / panic / monitor / mapped-disagree).
pub fn minimise(rp: &Replay) -> Replay {
    let fam = class_family(&rp.class).to_string();
    let mut best = rp.clone();
    let mut budget = 2000i32;
    let still = |cand: &Replay, budget: &mut i32| -> Option<Replay> {
        if *budget <= 0 {
            return None;
        }
        *budget -= 1;
        if !gram::well_scoped(&cand.grammar, false) {
            return None;
        }
        if cand.kind == Kind::IterInput && gram::needs_value_input(&cand.grammar) {
            return None;
        }
        if cand.kind == Kind::Array && !matches!(cand.syms.len(), 1 | 3 | 6) {
            return None;
        }
        match replay(cand) {
            Some((class, exp, obs)) if class_family(&class) == fam => {
                let mut c = cand.clone();
                c.class = class;
                c.expected = exp;
                c.observed = obs;
                c.grammar_sexpr = gram::sexpr(&c.grammar);
                c.input_shown = gram::show_input(&c.syms);
                Some(c)
            }
            _ => None,
        }
    };
    let mut progress = true;
    while progress && budget > 0 {
        progress = false;
        // 1. simplify the environment
        let mut envs: Vec<Env> = Vec::new();
        if best.env.trace.is_some() || best.env.policy != ReaderPolicy::full() {
            let mut e = best.env.clone();
            e.trace = None;
            e.policy = ReaderPolicy::full();
            envs.push(e);
            if let Some(t) = &best.env.trace {
                // drop EINTRs
                let mut e = best.env.clone();
                e.trace = Some(t.iter().copied().filter(|a| *a != RAct::Eintr).collect());
                if e.trace != best.env.trace {
                    envs.push(e);
                }
            }
        }
        if best.env.hint != Hint::Exact {
            let mut e = best.env.clone();
            e.hint = Hint::Exact;
            envs.push(e);
        }
        for e in envs {
            let mut c = best.clone();
            c.env = e;
            if let Some(b) = still(&c, &mut budget) {
                best = b;
                progress = true;
            }
        }
        // 2. drop input tokens (chunks, then single)
        let mut chunk = (best.syms.len() / 2).max(1);
        while chunk >= 1 && budget > 0 {
            let mut i = 0;
            while i + chunk <= best.syms.len() && budget > 0 {
                let mut c = best.clone();
                c.syms.drain(i..i + chunk);
                if c.env.mspans.len() >= i + chunk {
                    c.env.mspans.drain(i..i + chunk);
                }
                if c.env.trace.is_some() {
                    // a recorded trace no longer fits a changed input: fall back to its policy-free form
                    c.env.trace = c.env.trace.map(|t| t.into_iter().filter(|a| !matches!(a, RAct::Eof)).collect());
                }
                if let Some(b) = still(&c, &mut budget) {
                    best = b;
                    progress = true;
                } else {
                    i += chunk;
                }
            }
            if chunk == 1 {
                break;
            }
            chunk /= 2;
        }
        // 3. shrink the grammar: replace a node by one of its children or by a leaf
        let n = gram::count_nodes(&best.grammar);
        for pos in 0..n {
            if budget <= 0 {
                break;
            }
            let cands = shrink_at(&best.grammar, pos);
            for gnew in cands {
                let mut c = best.clone();
                c.grammar = gnew;
                gram::fixup(&mut c.grammar, 8);
                if gram::count_nodes(&c.grammar) >= gram::count_nodes(&best.grammar) {
                    continue;
                }
                if let Some(b) = still(&c, &mut budget) {
                    best = b;
                    progress = true;
                    break;
                }
            }
        }
    }
    best
}

pub fn shrink_at(g: &G, pos: usize) -> Vec<G> {
    // candidates for replacing the node at preorder position `pos`
    fn node_at<'a>(g: &'a G, pos: &mut usize) -> Option<&'a G> {
        if *pos == 0 {
            return Some(g);
        }
        *pos -= 1;
        for c in gram::children(g) {
            if let Some(x) = node_at(c, pos) {
                return Some(x);
            }
        }
        None
    }
    fn replace_at(g: &mut G, pos: &mut usize, new: &G) -> bool {
        if *pos == 0 {
            *g = new.clone();
            return true;
        }
        *pos -= 1;
        for c in gram::children_mut(g) {
            if replace_at(c, pos, new) {
                return true;
            }
        }
        false
    }
    let mut p = pos;
    let Some(node) = node_at(g, &mut p) else { return vec![] };
    let mut reps: Vec<G> = gram::children(node).into_iter().cloned().collect();
    if !gram::children(node).is_empty() {
        reps.push(G::Just(0));
        reps.push(G::Empty);
    }
    reps.into_iter()
        .map(|r| {
            let mut ng = g.clone();
            let mut p = pos;
            replace_at(&mut ng, &mut p, &r);
            ng
        })
        .collect()
}
