//! Normalisation of chumsky results into `Outcome`, and guarded execution of one parse.

use crate::build::{Ex, Insp};
use crate::hook;
use crate::tok::{SpanX, Tok};
use crate::val::{NErr, Outcome, Val};
use chumsky::error::{Rich, RichPattern, RichReason};
use chumsky::prelude::*;
use chumsky::ParseResult;
use serde::{Deserialize, Serialize};
use std::panic::{catch_unwind, AssertUnwindSafe};

#[derive(Clone, Copy, Debug, PartialEq, Eq, Serialize, Deserialize)]
pub enum PMode {
    Parse,
    Check,
    ParseState,
    CheckState,
}

impl PMode {
    pub fn is_check(self) -> bool {
        matches!(self, PMode::Check | PMode::CheckState)
    }
}

fn pat<T: Tok>(p: &RichPattern<'_, T>) -> String {
    match p {
        RichPattern::Token(t) => format!("tok:{}", t.to_sym()),
        RichPattern::Label(l) => format!("label:{}", l),
        RichPattern::Identifier(s) => format!("ident:{}", s),
        RichPattern::Any => "any".into(),
        RichPattern::SomethingElse => "something_else".into(),
        RichPattern::EndOfInput => "eoi".into(),
    }
}

pub fn norm_err<T: Tok, S: SpanX>(e: &Rich<'_, T, S>) -> NErr {
    let span = e.span().norm();
    let contexts = e.contexts().map(|(p, s)| (pat(p), s.norm())).collect();
    match e.reason() {
        RichReason::ExpectedFound { expected, found } => {
            let mut ex: Vec<String> = expected.iter().map(pat).collect();
            ex.sort();
            ex.dedup();
            NErr { span, found: found.as_ref().map(|t| t.to_sym()), expected: ex, custom: None, contexts }
        }
        RichReason::Custom(m) => NErr { span, found: None, expected: vec![], custom: Some(m.clone()), contexts },
    }
}

pub fn norm_result<T: Tok, S: SpanX>(r: ParseResult<Val, Rich<'_, T, S>>) -> Outcome {
    let (out, errs) = r.into_output_errors();
    Outcome::Finished { out, errs: errs.iter().map(norm_err).collect() }
}

pub fn norm_check<T: Tok, S: SpanX>(r: ParseResult<(), Rich<'_, T, S>>) -> Outcome {
    let (out, errs) = r.into_output_errors();
    Outcome::Checked { ok: out.is_some(), errs: errs.iter().map(norm_err).collect() }
}

/// Build the input, run one parse through `p`, normalise. Panics become outcomes.
pub fn exec<'a, I, P, F>(p: &P, mk: F, mode: PMode, state_seed: u64) -> Outcome
where
    I: Input<'a>,
    I::Token: Tok,
    I::Span: SpanX,
    P: Parser<'a, I, Val, Ex<'a, I>>,
    F: FnOnce() -> I,
{
    let r = catch_unwind(AssertUnwindSafe(|| {
        let input = mk();
        match mode {
            PMode::Parse => norm_result(p.parse(input)),
            PMode::Check => norm_check((&p).check(input)),
            PMode::ParseState => {
                let mut st = Insp { n: 0, h: state_seed };
                norm_result(p.parse_with_state(input, &mut st))
            }
            PMode::CheckState => {
                let mut st = Insp { n: 0, h: state_seed };
                norm_check((&p).check_with_state(input, &mut st))
            }
        }
    }));
    match r {
        Ok(o) => o,
        Err(_) => Outcome::Panicked { msg: hook::take_panic() },
    }
}
