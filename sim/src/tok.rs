//! Token and span abstractions so that one grammar AST can be built for every input kind.

use crate::val::Sp;
use chumsky::span::{SimpleSpan, Span};
use std::fmt::Debug;
use std::ops::Range;

pub const NSYM: u8 = 8;

pub trait Tok: Clone + PartialEq + Debug + 'static + Send + Sync + chumsky::text::Char {
    fn from_sym(s: u8) -> Self;
    fn to_sym(&self) -> u8;
    /// The container handed to `one_of` / `none_of`: a `Vec` for bytes, an owned `String` for
    /// characters (`Seq<char> for String`: heap storage that lives and dies with the grammar value).
    type Set: for<'p> chumsky::container::Seq<'p, Self> + Clone + Send + Sync + 'static;
    fn mk_set(syms: &[u8]) -> Self::Set;
}

/// Symbols 0..8 are the abstract alphabet of the generated grammars; 8..16 are only used by cases with
/// text parsers (whitespace, newlines, digits, underscore): see gram::G::Text / G::Padded.
/// 16..24 are the ASCII neighbours of the character classes ('@' 'A', '`' 'a', '/' '0', '9' ':',
/// 'Z' '[', 'z' '{', 'F' 'G'): where hand-written classification code goes wrong.
/// 24, 25: the two remaining ASCII whitespace / line-break characters, vertical tab and form feed.
pub const BYTES: [u8; 26] = [b'a', b'b', b'c', b'd', b'e', b'f', b'g', b'h', b' ', b'\n', b'\r', b'0', b'7', b'_', b'\t', b'Z', b'@', b'`', b'/', b':', b'[', b'{', b'G', b'9', 0x0B, 0x0C];
/// Alphabet size of cases with text parsers / padded().
pub const NSYM_TEXT: u8 = 26;

impl Tok for u8 {
    fn from_sym(s: u8) -> u8 {
        BYTES[s as usize % BYTES.len()]
    }
    fn to_sym(&self) -> u8 {
        BYTES.iter().position(|c| c == self).map(|p| p as u8).unwrap_or(255)
    }
    type Set = Vec<u8>;
    fn mk_set(syms: &[u8]) -> Vec<u8> {
        syms.iter().map(|s| u8::from_sym(*s)).collect()
    }
}

/// 1-, 2-, 3- and 4-byte characters so that &str byte offsets differ from token indices; 8..16 as
/// for bytes, with a 3-byte (U+2028) and a 2-byte (U+0085) line terminator.
pub const CHARS: [char; 26] = ['a', 'é', 'b', '日', 'c', '😀', 'd', 'ß', ' ', '\n', '\r', '0', '7', '_', '\u{2028}', '\u{85}', '@', '`', '/', ':', '[', '{', 'G', '\u{FF19}', '\x0B', '\x0C'];

/// Alternative table for the eight abstract symbols (srcsim, a quarter of the character cases): code
/// points at the edges of what a `char` can be and ones that text-processing code likes to treat
/// specially — the byte-order mark / zero-width no-break space U+FEFF, NUL, the replacement character,
/// the largest scalar value, DEL, the first non-ASCII code point, and the neighbours of the surrogate gap.
pub const ALT_CHARS: [char; 8] = ['\u{FEFF}', '\0', '\u{FFFD}', '\u{10FFFF}', '\u{7F}', '\u{80}', '\u{D7FF}', '\u{E000}'];

/// The character a symbol stands for under the given table choice.
pub fn char_for(s: u8, alt: bool) -> char {
    let i = s as usize % CHARS.len();
    if alt && i < 8 {
        ALT_CHARS[i]
    } else {
        CHARS[i]
    }
}

/// Display form of a symbol in logs, S-expressions and replay files.
pub fn sym_char(s: u8) -> char {
    const SHOW: [char; 26] = ['a', 'b', 'c', 'd', 'e', 'f', 'g', 'h', '␣', '␤', '␍', '0', '7', '_', '⇥', 'Z', '@', '`', '/', ':', '[', '{', 'G', '9', '␋', '␌'];
    SHOW.get(s as usize).copied().unwrap_or('?')
}

thread_local! {
    static ASCII_CHARS: std::cell::Cell<bool> = const { std::cell::Cell::new(false) };
    static ALT_CHARS_ON: std::cell::Cell<bool> = const { std::cell::Cell::new(false) };
}

/// While on (srcsim, for the duration of one run), the eight abstract symbols map to `ALT_CHARS`.
pub fn set_alt_chars(on: bool) {
    ALT_CHARS_ON.with(|c| c.set(on));
}

/// While on (srcsim, for the duration of one run), symbols map to the ASCII characters of `BYTES`
/// instead of `CHARS`: the character inputs (`&str`, `&[char]`, a stream of chars) then carry the
/// very same text as the byte inputs of the case and are compared with the `&[u8]` reference.
pub fn set_ascii_chars(on: bool) {
    ASCII_CHARS.with(|c| c.set(on));
}

impl Tok for char {
    fn from_sym(s: u8) -> char {
        if ASCII_CHARS.with(|c| c.get()) {
            BYTES[s as usize % BYTES.len()] as char
        } else {
            char_for(s, ALT_CHARS_ON.with(|c| c.get()))
        }
    }
    fn to_sym(&self) -> u8 {
        if ASCII_CHARS.with(|c| c.get()) {
            BYTES.iter().position(|c| *c as char == *self).map(|p| p as u8).unwrap_or(255)
        } else if ALT_CHARS_ON.with(|c| c.get()) {
            (0..CHARS.len() as u8).find(|s| char_for(*s, true) == *self).unwrap_or(255)
        } else {
            CHARS.iter().position(|c| c == self).map(|p| p as u8).unwrap_or(255)
        }
    }
    type Set = String;
    fn mk_set(syms: &[u8]) -> String {
        syms.iter().map(|s| char::from_sym(*s)).collect()
    }
}

pub trait SpanX: Span + Clone + Debug + 'static {
    fn norm(&self) -> Sp;
}

impl SpanX for SimpleSpan<usize, ()> {
    fn norm(&self) -> Sp {
        Sp(0, self.start, self.end)
    }
}
impl SpanX for SimpleSpan<usize, u32> {
    fn norm(&self) -> Sp {
        Sp(self.context, self.start, self.end)
    }
}
impl SpanX for Range<usize> {
    fn norm(&self) -> Sp {
        Sp(0, self.start, self.end)
    }
}
impl SpanX for (u32, SimpleSpan<usize, ()>) {
    fn norm(&self) -> Sp {
        Sp(self.0, self.1.start, self.1.end)
    }
}
