//! Token and span abstractions so that one grammar AST can be built for every input kind.

use crate::val::Sp;
use chumsky::span::{SimpleSpan, Span};
use std::fmt::Debug;
use std::ops::Range;

pub const NSYM: u8 = 8;

pub trait Tok: Clone + PartialEq + Debug + 'static + Send + Sync {
    fn from_sym(s: u8) -> Self;
    fn to_sym(&self) -> u8;
}

impl Tok for u8 {
    fn from_sym(s: u8) -> u8 {
        b'a' + s
    }
    fn to_sym(&self) -> u8 {
        self.wrapping_sub(b'a')
    }
}

/// 1-, 2-, 3- and 4-byte characters so that &str byte offsets differ from token indices.
pub const CHARS: [char; 8] = ['a', 'é', 'b', '日', 'c', '😀', 'd', 'ß'];

impl Tok for char {
    fn from_sym(s: u8) -> char {
        CHARS[s as usize % CHARS.len()]
    }
    fn to_sym(&self) -> u8 {
        CHARS.iter().position(|c| c == self).map(|p| p as u8).unwrap_or(255)
    }
}

pub trait SpanX: Span + Clone + Debug + 'static {
    fn norm(&self) -> Sp;
}

impl SpanX for SimpleSpan<usize, ()> {
    fn norm(&self) -> Sp {
        Sp(0, self.start, self.end)
    }
}
impl SpanX for SimpleSpan<usize, u32> {
    fn norm(&self) -> Sp {
        Sp(self.context, self.start, self.end)
    }
}
impl SpanX for Range<usize> {
    fn norm(&self) -> Sp {
        Sp(0, self.start, self.end)
    }
}
impl SpanX for (u32, SimpleSpan<usize, ()>) {
    fn norm(&self) -> Sp {
        Sp(self.0, self.1.start, self.1.end)
    }
}
